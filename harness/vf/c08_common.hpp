// C08 — shared driver for the three quantile families (KLL, REQ, classic quantiles).
//
// Part A (exhaustive over the coin tree): a generated scenario (streams into 1..5 sketches + a merge
// tree) is executed once per outcome sequence of the library's internal fair coin — all 2^f of them,
// the bits being supplied through the verif_coin script hook — and the retained weights below / at
// every distinct stream value are summed as exact integers.  Oracle: number of flips identical in every
// outcome; n and total weight == true n in every outcome; Σ_outcomes weight == 2^f · true count.
//
// Part B (sampled): long streams, fixed seeds; per cell T trials; published normalized rank error
// (KLL/classic, single- and double-sided) resp. REQ rank bounds hold as often as claimed, and the
// mean estimated rank over the trials is statistically indistinguishable from the true rank.
#ifndef VF_C08_COMMON_HPP
#define VF_C08_COMMON_HPP

#include "vf/core.hpp"
#include <common_defs.hpp>
#include <sstream>
#include <memory>

namespace vf { namespace c08 {

namespace ds = datasketches;

// ------------------------------------------------------------------------------------------------
// item type of the sketches under test.  The model side always works with float values (small non-negative integers);
// enc() maps a model value to the sketch's item type and dec() back (a retained item that is no valid encoding decodes
// to -1e9, which is never an input).  Order of the encoded items == numeric order.
#if defined(C08_ITEM_STRING)
typedef std::string Item;                       // "k%07d": fixed width, so lexicographic order == numeric order
inline Item enc(float x) { char b[24]; snprintf(b, sizeof b, "k%07d", static_cast<int>(x)); return Item(b); }
inline float dec(const Item& s) {
  if (s.size() != 8 || s[0] != 'k') return -1e9f;
  int v = 0;
  for (size_t i = 1; i < 8; ++i) { if (s[i] < '0' || s[i] > '9') return -1e9f; v = v * 10 + (s[i] - '0'); }
  return static_cast<float>(v);
}
inline const char* item_tag() { return "-string"; }
#define C08_ITEM_NONARITH 1
#elif defined(C08_ITEM_SELFMOVE)
// a type whose self-move-assignment is not the identity (like a container that releases its own state first) and whose
// moved-from state is poisoned: a sketch must never retain either
struct Item {
  float v;
  Item(): v(-7e8f) {}
  explicit Item(float x): v(x) {}
  Item(const Item&) = default;
  Item(Item&& o) noexcept : v(o.v) { o.v = -9e8f; }
  Item& operator=(const Item&) = default;
  Item& operator=(Item&& o) noexcept { v = -8e8f; const float t = o.v; o.v = -9e8f; v = t; return *this; }
  bool operator<(const Item& o) const { return v < o.v; }
};
inline Item enc(float x) { return Item(x); }
inline float dec(const Item& s) { return (s.v >= 0 && s.v < 1e8f) ? s.v : -1e9f; }
inline const char* item_tag() { return "-selfmove"; }
#define C08_ITEM_NONARITH 1
#elif defined(C08_CMP_DESC)
// float items ordered by a STATEFUL comparator instance (descending); a default-constructed comparator orders ascending,
// so any place that uses C() instead of the sketch's instance becomes visible.  enc(x) = 1e7 - x makes the model's
// ascending order the sketch's order.
typedef float Item;
inline Item enc(float x) { return 1e7f - x; }
inline float dec(const Item& x) { const float v = 1e7f - x; return (v >= 0 && v < 9e6f) ? v : -1e9f; }
inline const char* item_tag() { return "-desccmp"; }
#define C08_ITEM_NONARITH 1
#else
typedef float Item;
inline Item enc(float x) { return x; }
inline float dec(const Item& x) { return x; }
inline const char* item_tag() { return ""; }
#endif
#if defined(C08_CMP_DESC)
struct Cmp { bool desc; Cmp(): desc(false) {} explicit Cmp(bool d): desc(d) {} bool operator()(const Item& a, const Item& b) const { return desc ? b < a : a < b; } };
inline Cmp cmp_instance() { return Cmp(true); }
#else
typedef std::less<Item> Cmp;
inline Cmp cmp_instance() { return Cmp(); }
#endif
// per-execution sequence number of sketch constructions (reset by execute/feed/doubling_case) and per-case salt: the
// comparator variant derives from them whether a sketch starts fresh or as a deserialized EMPTY image (bytes / stream)
inline unsigned& make_seq() { static unsigned v = 0; return v; }
inline uint64_t& make_salt() { static uint64_t v = 0; return v; }

// ------------------------------------------------------------------------------------------------
// scripted coin
struct Script {
  uint64_t bits = 0;     // outcome sequence: flip i returns bit i
  uint32_t pos = 0;
};
inline uint32_t script_cb(void* p) {
  Script* s = static_cast<Script*>(p);
  const uint32_t b = s->pos < 64 ? static_cast<uint32_t>((s->bits >> s->pos) & 1u) : 0u;
  s->pos++;
  return b;
}
inline void install_script(Script& s, uint64_t bits) {
  s.bits = bits; s.pos = 0;
  ds::random_utils::random_bit.script = script_cb;
  ds::random_utils::random_bit.script_ctx = &s;
  ds::random_utils::random_bit.calls = 0;
}
inline void remove_script() {
  ds::random_utils::random_bit.script = nullptr;
  ds::random_utils::random_bit.script_ctx = nullptr;
}

// ------------------------------------------------------------------------------------------------
// scenario = little program over a pool of sketches; sketch 0 is the root that is read out
enum OpKind : uint8_t { OP_UPD, OP_MERGE, OP_MERGE_MOVE, OP_VIEW, OP_RT };
struct Op { OpKind kind; uint8_t a; uint8_t b; float v; };

struct Scenario {
  std::vector<int> cfg;          // per-sketch configuration code (family specific, see Fam::make)
  std::vector<Op> ops;
  bool has_merge = false, has_rt = false, has_query_before_merge = false;
  std::string shape;
};

// structure of a scenario before its length is fixed
struct Shape {
  int nsk;
  std::vector<int> parent;           // parent[i] < i, parent[0] = -1
  std::vector<double> w;             // relative stream length per sketch
  std::vector<int> cfg;
  double p_view, p_rt, p_move;
  std::vector<int> quantum;          // per sketch: if > 0 the stream length of a non-root sketch is rounded to a multiple of it (classic: 2k -> empty base buffer)
  double p_qbm = 0;                  // probability of querying the destination immediately before (and the result right after) a merge
  int value_mode;                    // 0 random distinct, 1 ascending, 2 descending, 3 small domain, 4 zipf-ish, 5 per-sketch disjoint ranges, 6 two-point
  int domain;
  uint64_t seed;
};

inline const char* value_mode_name(int m) {
  static const char* n[] = {"distinct-random", "ascending", "descending", "small-domain", "zipf", "disjoint-per-sketch", "two-point"};
  return n[m];
}

// emit the program for sketch i (its own updates, interleaved with complete child subtrees + merge)
inline void emit(const Shape& sh, int i, const std::vector<int>& len, Rng& r, Scenario& sc, bool allow_rt) {
  std::vector<int> events;   // -1 = own update, >= 0 child to merge
  for (int j = 0; j < len[i]; ++j) events.push_back(-1);
  for (int c = i + 1; c < sh.nsk; ++c) if (sh.parent[c] == i) events.push_back(c);
  r.shuffle(events);
  for (int e : events) {
    if (e < 0) {
      sc.ops.push_back(Op{OP_UPD, static_cast<uint8_t>(i), 0, 0.f});
      if (r.chance(sh.p_view)) sc.ops.push_back(Op{OP_VIEW, static_cast<uint8_t>(i), static_cast<uint8_t>(r.below(3)), 0.f});
      if (allow_rt && r.chance(sh.p_rt * 0.06)) { sc.ops.push_back(Op{OP_RT, static_cast<uint8_t>(i), 0, 0.f}); sc.has_rt = true; }
    } else {
      emit(sh, e, len, r, sc, allow_rt);
      if (allow_rt && r.chance(sh.p_rt)) { sc.ops.push_back(Op{OP_RT, static_cast<uint8_t>(e), 0, 0.f}); sc.has_rt = true; }
      // a monitoring loop queries a sketch between updates and merges: the query may sort level 0 / the base buffer as a
      // side effect and leave "is sorted" state behind that the merge has to invalidate
      if (r.chance(sh.p_qbm)) { sc.ops.push_back(Op{OP_VIEW, static_cast<uint8_t>(i), static_cast<uint8_t>(r.below(4)), 0.f}); sc.has_query_before_merge = true; }
      if (r.chance(sh.p_qbm * 0.3)) sc.ops.push_back(Op{OP_VIEW, static_cast<uint8_t>(e), static_cast<uint8_t>(r.below(3)), 0.f});
      sc.ops.push_back(Op{r.chance(sh.p_move) ? OP_MERGE_MOVE : OP_MERGE, static_cast<uint8_t>(i), static_cast<uint8_t>(e), 0.f});
      sc.has_merge = true;
      if (r.chance(sh.p_qbm * 0.7)) sc.ops.push_back(Op{OP_VIEW, static_cast<uint8_t>(i), 3, 0.f});   // right after the merge: fresh sorted view checked, all query methods compared with it
      if (allow_rt && r.chance(sh.p_rt * 0.5)) { sc.ops.push_back(Op{OP_RT, static_cast<uint8_t>(i), 0, 0.f}); sc.has_rt = true; }
    }
  }
}

inline Scenario build(const Shape& sh, int total_len, bool allow_rt) {
  Scenario sc;
  sc.cfg = sh.cfg;
  double wsum = 0; for (double x : sh.w) wsum += x;
  std::vector<int> len(sh.nsk);
  for (int i = 0; i < sh.nsk; ++i) len[i] = static_cast<int>(sh.w[i] / wsum * total_len);
  { int used = 0; for (int i = 0; i < sh.nsk; ++i) used += len[i]; len[sh.w[0] > 0 ? 0 : sh.nsk - 1] += total_len - used; }   // rounding remainder
  for (int i = 1; i < sh.nsk; ++i) if (i < static_cast<int>(sh.quantum.size()) && sh.quantum[i] > 0) len[i] = std::max(1, (len[i] + sh.quantum[i] / 2) / sh.quantum[i]) * sh.quantum[i];
  Rng r(mix64(sh.seed, 0xA11CE));
  emit(sh, 0, len, r, sc, allow_rt);
  // values (the compaction schedule never depends on them)
  Rng rv(mix64(sh.seed, 0xB0B + static_cast<uint64_t>(total_len)));
  size_t nupd = 0; for (auto& o : sc.ops) if (o.kind == OP_UPD) nupd++;
  std::vector<float> vals(nupd);
  switch (sh.value_mode) {
    case 0: { for (size_t i = 0; i < nupd; ++i) vals[i] = static_cast<float>(i); rv.shuffle(vals); break; }
    case 1: { for (size_t i = 0; i < nupd; ++i) vals[i] = static_cast<float>(i); break; }
    case 2: { for (size_t i = 0; i < nupd; ++i) vals[i] = static_cast<float>(nupd - i); break; }
    case 3: { for (size_t i = 0; i < nupd; ++i) vals[i] = static_cast<float>(rv.below(static_cast<uint64_t>(sh.domain))); break; }
    case 4: { for (size_t i = 0; i < nupd; ++i) { double u = rv.unit(); vals[i] = static_cast<float>(std::floor(sh.domain * 4 * u * u * u)); } break; }
    case 5: { size_t i = 0; for (auto& o : sc.ops) if (o.kind == OP_UPD) { vals[i] = static_cast<float>(o.a * 1000 + static_cast<int>(rv.below(static_cast<uint64_t>(sh.domain) * 8))); ++i; } break; }
    default: { for (size_t i = 0; i < nupd; ++i) vals[i] = rv.chance(0.3) ? 1.f : 2.f; break; }
  }
  size_t vi = 0;
  for (auto& o : sc.ops) if (o.kind == OP_UPD) o.v = vals[vi++];
  std::ostringstream os;
  os << "nsk=" << sh.nsk << " parent=[";
  for (int i = 0; i < sh.nsk; ++i) os << (i ? "," : "") << sh.parent[i];
  os << "] cfg=[";
  for (int i = 0; i < sh.nsk; ++i) os << (i ? "," : "") << sh.cfg[i];
  os << "] len=[";
  for (int i = 0; i < sh.nsk; ++i) os << (i ? "," : "") << len[i];
  os << "] values=" << value_mode_name(sh.value_mode) << " shape_seed=" << sh.seed;
  sc.shape = os.str();
  return sc;
}

inline std::string program_text(const Scenario& sc, size_t max_ops = 600) {
  std::ostringstream os;
  size_t i = 0;
  for (auto& o : sc.ops) {
    if (i++ >= max_ops) { os << "..."; break; }
    switch (o.kind) {
      case OP_UPD: os << "u" << int(o.a) << ":" << o.v << " "; break;
      case OP_MERGE: os << "m" << int(o.a) << "<-" << int(o.b) << " "; break;
      case OP_MERGE_MOVE: os << "mm" << int(o.a) << "<-" << int(o.b) << " "; break;
      case OP_VIEW: os << (o.b == 0 ? "v" : o.b == 1 ? "qr" : o.b == 2 ? "qq" : "chk") << int(o.a) << " "; break;
      case OP_RT: os << "rt" << int(o.a) << " "; break;
    }
  }
  return os.str();
}

// Every query method of a sketch must answer from its CURRENT contents: get_rank / get_quantile / get_CDF / get_PMF are
// compared with the same functions of a freshly built get_sorted_view() (same formulas, so equality up to 1e-12).
template<typename SK>
bool queries_match_fresh_view(const SK& s, std::string& why) {
  if (s.is_empty()) return true;
  auto v = s.get_sorted_view();
  std::vector<float> items;
  for (auto it = v.begin(); it != v.end(); ++it) { const float x = dec((*it).first); if (items.empty() || items.back() != x) items.push_back(x); }
  std::vector<float> probes;
  const size_t step = std::max<size_t>(1, items.size() / 6);
  for (size_t i = 0; i < items.size(); i += step) probes.push_back(items[i]);
  if (probes.back() != items.back()) probes.push_back(items.back());
  for (float x : probes) for (int incl = 0; incl < 2; ++incl) {
    const double a = s.get_rank(enc(x), incl == 1), b = v.get_rank(enc(x), incl == 1);
    if (std::fabs(a - b) > 1e-12) { why = "get_rank(" + str(x) + (incl ? ",inclusive)=" : ",exclusive)=") + str(a) + " but fresh sorted view gives " + str(b) + " (get_n=" + std::to_string(s.get_n()) + ")"; return false; }
  }
  static const double ranks[5] = {0.0, 0.1, 0.5, 0.9, 1.0};
  for (double rk : ranks) for (int incl = 0; incl < 2; ++incl) {
    const float a = dec(s.get_quantile(rk, incl == 1)), b = dec(v.get_quantile(rk, incl == 1));
    if (a != b) { why = "get_quantile(" + str(rk) + (incl ? ",inclusive)=" : ",exclusive)=") + str(a) + " but fresh sorted view gives " + str(b); return false; }
  }
  std::vector<Item> iprobes; for (float x : probes) iprobes.push_back(enc(x));
  for (int incl = 0; incl < 2; ++incl) {
    auto c1 = s.get_CDF(iprobes.data(), static_cast<uint32_t>(iprobes.size()), incl == 1); auto c2 = v.get_CDF(iprobes.data(), static_cast<uint32_t>(iprobes.size()), incl == 1);
    auto p1 = s.get_PMF(iprobes.data(), static_cast<uint32_t>(iprobes.size()), incl == 1); auto p2 = v.get_PMF(iprobes.data(), static_cast<uint32_t>(iprobes.size()), incl == 1);
    if (c1.size() != c2.size() || p1.size() != p2.size()) { why = "get_CDF/get_PMF size differs from fresh sorted view"; return false; }
    for (size_t i = 0; i < c1.size(); ++i) if (std::fabs(c1[i] - c2[i]) > 1e-12) { why = "get_CDF[" + std::to_string(i) + "]=" + str(c1[i]) + " but fresh sorted view gives " + str(c2[i]); return false; }
    for (size_t i = 0; i < p1.size(); ++i) if (std::fabs(p1[i] - p2[i]) > 1e-12) { why = "get_PMF[" + std::to_string(i) + "]=" + str(p1[i]) + " but fresh sorted view gives " + str(p2[i]); return false; }
  }
  return true;
}

// what one execution observed besides the root sketch
struct ExecInfo {
  uint64_t flips = 0;
  uint32_t bad_views = 0;            // a mid-scenario get_sorted_view() that was not ascending or whose total weight was not get_n()
  uint32_t views_checked = 0;
  uint32_t stale_queries = 0;        // a query method disagreed with a freshly built sorted view
  uint32_t query_checks = 0;
  std::string stale_why;
  uint32_t silent_compactions = 0;   // retained count dropped during an update without any coin flip (REQ negated coin reuse)
  uint32_t flips_in_merges = 0;
  uint32_t flips_in_rt = 0;
};

// Fam requirements:  using SK;  static const char* name();  static SK make(int cfg);  static std::string cfg_text(int);
//                    static SK roundtrip(const SK&);  static bool allow_rt();
//                    static bool exact_claim(const SK&, double true_rank);  (true iff the sketch itself publishes zero error at that rank)
template<typename Fam>
std::unique_ptr<typename Fam::SK> execute(const Scenario& sc, ExecInfo& info) {
  typedef typename Fam::SK SK;
  make_seq() = 0;
  std::vector<std::unique_ptr<SK>> pool(sc.cfg.size());
  for (size_t i = 0; i < sc.cfg.size(); ++i) pool[i].reset(new SK(Fam::make(sc.cfg[i])));
  auto& coin = ds::random_utils::random_bit;
  for (const Op& o : sc.ops) {
    switch (o.kind) {
      case OP_UPD: {
        SK& s = *pool[o.a];
        const uint32_t before = s.get_num_retained();
        const uint64_t c0 = coin.calls;
        s.update(enc(o.v));
        if (s.get_num_retained() <= before && coin.calls == c0) info.silent_compactions++;
        break;
      }
      case OP_MERGE: { const uint64_t c0 = coin.calls; pool[o.a]->merge(*pool[o.b]); info.flips_in_merges += static_cast<uint32_t>(coin.calls - c0); break; }
      case OP_MERGE_MOVE: { const uint64_t c0 = coin.calls; pool[o.a]->merge(std::move(*pool[o.b])); pool[o.b].reset(); info.flips_in_merges += static_cast<uint32_t>(coin.calls - c0); break; }
      case OP_VIEW: {
        SK& s = *pool[o.a];
        if (s.is_empty()) break;
        if (o.b == 3) { std::string why; if (!queries_match_fresh_view(s, why)) { if (!info.stale_queries) info.stale_why = why; info.stale_queries++; } info.query_checks++; }
        if (o.b == 1) { volatile double x = s.get_rank(enc(o.v), true); (void)x; }
        else if (o.b == 2) { volatile float x = dec(s.get_quantile(0.5)); (void)x; }
        else if (o.b == 0 || o.b == 3) {
          auto v = s.get_sorted_view();
          bool ok = true, first = true; float prev = 0; uint64_t total = 0;
          for (auto it = v.begin(); it != v.end(); ++it) { const float x = dec((*it).first); if (!first && x < prev) ok = false; first = false; prev = x; total = (*it).second; }
          if (!ok || total != s.get_n()) info.bad_views++;
          info.views_checked++;
        }
        break;
      }
      case OP_RT: { if (pool[o.a]->get_n() > 8) { const uint64_t c0 = coin.calls; pool[o.a].reset(new SK(Fam::roundtrip(*pool[o.a]))); info.flips_in_rt += static_cast<uint32_t>(coin.calls - c0); } break; }
    }
  }
  info.flips = coin.calls;
  return std::move(pool[0]);
}

// true multiset that reached the root
inline std::vector<float> truth_of(const Scenario& sc) {
  std::vector<std::vector<float>> t(sc.cfg.size());
  for (const Op& o : sc.ops) {
    if (o.kind == OP_UPD) t[o.a].push_back(o.v);
    else if (o.kind == OP_MERGE || o.kind == OP_MERGE_MOVE) { t[o.a].insert(t[o.a].end(), t[o.b].begin(), t[o.b].end()); }
  }
  std::sort(t[0].begin(), t[0].end());
  return t[0];
}

inline std::string u128str(unsigned __int128 x) {
  if (x == 0) return "0";
  std::string s;
  while (x > 0) { s.insert(s.begin(), static_cast<char>('0' + static_cast<int>(x % 10))); x /= 10; }
  return s;
}

// ------------------------------------------------------------------------------------------------
// exhaustive enumeration of one scenario
template<typename Fam>
void run_exhaustive(const Scenario& sc, unsigned f_expected) {
  typedef typename Fam::SK SK;
  const std::string fam = Fam::name();
  // one key per path class: any scenario with a merge -> merge-tree (a serialization round trip inside it is named in the
  // detail); round trips without any merge have their own class so that a serde-only defect is not mixed up with a merge defect
  const std::string path = sc.has_merge ? "merge-tree" : (sc.has_rt ? "single-stream-serde-roundtrip" : "single-stream");
  const std::string kp = fam + "|exhaustive|" + path + "|";
  const std::vector<float> truth = truth_of(sc);
  const uint64_t n = truth.size();
  // distinct values with exact true counts
  std::vector<float> dv; std::vector<uint64_t> below, atmost;
  for (size_t i = 0; i < truth.size();) {
    size_t j = i; while (j < truth.size() && truth[j] == truth[i]) ++j;
    dv.push_back(truth[i]); below.push_back(i); atmost.push_back(j);
    i = j;
  }
  const size_t nd = dv.size();
  std::vector<uint64_t> s_ex(nd, 0), s_in(nd, 0), w_ex(nd), w_in(nd);
  const unsigned f = f_expected;
  const uint64_t outcomes = 1ULL << f;
  const std::string ctx = sc.shape + (sc.has_rt ? " (with serde round trips)" : "") + " f=" + std::to_string(f) + " n=" + std::to_string(n);
  const uint64_t rank_stride = std::max<uint64_t>(1, outcomes / 128);
  Script script;
  bool aborted = false;
  uint64_t sigacc = mix64(n, f);
  // exact-region clause applies when all sketches of the scenario share one configuration (a merge of different k
  // brings in items protected only by the smaller k)
  bool exact_applicable = Fam::has_exact_region();
  for (int cfg : sc.cfg) if (cfg != sc.cfg[0]) exact_applicable = false;
  bool exact_set = false; uint64_t exact_asserts = 0;
  std::vector<std::pair<size_t, int>> exact_q;
  for (uint64_t o = 0; o < outcomes && !aborted; ++o) {
    install_script(script, o);
    ExecInfo info;
    std::unique_ptr<SK> root;
    try {
      root = execute<Fam>(sc, info);
    } catch (const std::exception& e) {
      remove_script();
      fail(kp + "exception-under-scripted-coin", ctx + " outcome=" + std::to_string(o) + " what=" + e.what() + " program=" + program_text(sc));
      return;
    }
    remove_script();
    // (1) flip count independent of the outcomes
    checked();
    if (info.flips != f) {
      fail(kp + "flip-count-depends-on-outcome", ctx + " outcome=" + std::to_string(o) + " flips=" + std::to_string(info.flips) +
           " (all-zero outcome: " + std::to_string(f) + ") program=" + program_text(sc));
      return;
    }
    if (info.bad_views) {
      checked();
      fail(kp + "sorted-view-not-sorted", ctx + " outcome=" + std::to_string(o) + " a get_sorted_view() taken inside the scenario (op v<i>) was not ascending or its total weight was not get_n(); program=" + program_text(sc));
      return;
    }
    checked(info.views_checked);
    if (info.stale_queries) {
      checked();
      fail(kp + "query-answer-differs-from-current-sorted-view", ctx + " outcome=" + std::to_string(o) + " inside the scenario (op chk<i>): " + info.stale_why + "; program=" + program_text(sc));
      return;
    }
    checked(info.query_checks);
    if (o == 0 && info.query_checks) count(fam + "_exh_scen_with_query_vs_view_check");
    // (3) n and total weight
    VF_CHECK(root->get_n() == n, kp + "n-not-true-n", ctx + " outcome=" + std::to_string(o) + " get_n=" + std::to_string(root->get_n()));
    if (n == 0) continue;
    auto view = root->get_sorted_view();
    size_t j = 0;      // next distinct value whose w_ex is not fixed yet
    size_t ji = 0;     // next distinct value whose w_in is not fixed yet
    uint64_t cum_prev = 0, total = 0;
    bool order_ok = true; float prev_item = 0; bool first = true; bool all_inputs = true; float stranger = 0;
    for (auto it = view.begin(); it != view.end(); ++it) {
      const float item = dec((*it).first);
      const uint64_t cum = (*it).second;
      if (!std::binary_search(dv.begin(), dv.end(), item)) { if (all_inputs) stranger = item; all_inputs = false; }
      if (!first && item < prev_item) order_ok = false;
      first = false; prev_item = item;
      // weight strictly below dv[j] is known when the first entry >= dv[j] is met; weight at-or-below dv[ji]
      // when the first entry > dv[ji] is met
      while (j < nd && dv[j] <= item) { w_ex[j] = cum_prev; ++j; }
      while (ji < nd && dv[ji] < item) { w_in[ji] = cum_prev; ++ji; }
      cum_prev = cum; total = cum;
    }
    while (j < nd) { w_ex[j] = total; ++j; }
    while (ji < nd) { w_in[ji] = total; ++ji; }
    VF_CHECK(order_ok, kp + "sorted-view-not-sorted", ctx + " outcome=" + std::to_string(o));
    if (!all_inputs) {
      checked();
      fail(kp + "retained-item-not-an-input", ctx + " outcome=" + std::to_string(o) + " the sorted view contains an item that was never given to any sketch of the scenario (decoded " +
           str(stranger) + "; -1e9 = not a valid encoding, e.g. emptied/poisoned by a move) program=" + program_text(sc));
      return;
    }
    checked();
    if (total != n) {
      checked();
      fail(kp + "total-weight-not-n", ctx + " outcome=" + std::to_string(o) + " total_weight=" + std::to_string(total) + " program=" + program_text(sc));
      aborted = true;
    } else checked();
    for (size_t q = 0; q < nd; ++q) { s_ex[q] += w_ex[q]; s_in[q] += w_in[q]; }
    // the public rank estimate is the same integer weight / n
    if (o % rank_stride == 0 || o + 1 == outcomes) {
      for (size_t q = 0; q < nd; ++q) {
        const double re = root->get_rank(enc(dv[q]), false), ri = root->get_rank(enc(dv[q]), true);
        const double we = static_cast<double>(w_ex[q]) / static_cast<double>(n), wi = static_cast<double>(w_in[q]) / static_cast<double>(n);
        if (std::fabs(re - we) > 1e-12 || std::fabs(ri - wi) > 1e-12) {
          fail(kp + "get_rank-differs-from-sorted-view-weight", ctx + " outcome=" + std::to_string(o) + " v=" + str(dv[q]) + " rank_excl=" + str(re) +
               " view=" + str(we) + " rank_incl=" + str(ri) + " view=" + str(wi));
          break;
        }
      }
      checked(2 * nd);
      count(fam + "_exh_rank_crosschecks", 2 * nd);
      { std::string why; checked(); if (!queries_match_fresh_view(*root, why)) fail(kp + "query-answer-differs-from-current-sorted-view", ctx + " outcome=" + std::to_string(o) + " final read-out: " + why + "; program=" + program_text(sc)); }
    }
    // (4) deterministic exact-region clause: wherever the sketch itself publishes zero error at the TRUE rank of a
    // stream value (REQ: lb == ub within 3k/n of the accurate end), the estimate must be that rank in EVERY outcome.
    // The set of such (value, criterion) pairs is a function of (k, n, number of levels) and so the same in every outcome.
    if (exact_applicable) {
      if (!exact_set) {
        for (size_t q = 0; q < nd; ++q) for (int incl = 0; incl < 2; ++incl) {
          const double tr = static_cast<double>(incl ? atmost[q] : below[q]) / static_cast<double>(n);
          if (Fam::exact_claim(*root, tr)) exact_q.push_back(std::make_pair(q, incl));
        }
        exact_set = true;
        if (root->is_estimation_mode()) count(fam + "_exh_exact_pairs_estimation_mode", exact_q.size());
      }
      for (const auto& e : exact_q) {
        const double tr = static_cast<double>(e.second ? atmost[e.first] : below[e.first]) / static_cast<double>(n);
        const double est = root->get_rank(enc(dv[e.first]), e.second == 1);
        if (std::fabs(est - tr) > 1e-12) {
          fail(kp + "rank-not-exact-where-zero-error-is-published", ctx + " outcome=" + std::to_string(o) + " v=" + str(dv[e.first]) + (e.second ? " inclusive" : " exclusive") +
               " true_rank=" + str(tr) + " (" + std::to_string(e.second ? atmost[e.first] : below[e.first]) + "/" + std::to_string(n) + ") get_rank=" + str(est) +
               " (" + str(est * static_cast<double>(n)) + "/" + std::to_string(n) + ") program=" + program_text(sc));
          break;
        }
      }
      checked(exact_q.size());
      exact_asserts += exact_q.size();
    }
    if (o == 0 || o + 1 == outcomes) sigacc = mix64(sigacc, mix64(root->get_num_retained(), w_in[nd / 2]));
    if (o == 0) {
      count(fam + "_exh_flips_in_merges", info.flips_in_merges);
      if (info.flips_in_merges > 0) count(fam + "_exh_scen_with_flips_in_merge");
      if (info.silent_compactions > 0) count(fam + "_exh_scen_with_negated_coin_reuse");
      if (info.flips_in_rt > 0) count(fam + "_exh_scen_with_ctor_coin_draw");
      if (root->is_estimation_mode()) count(fam + "_exh_scen_estimation_mode");
    }
  }
  if (aborted) return;
  // (2) exact unbiasedness
  size_t bad = 0; std::string first_bad;
  for (size_t q = 0; q < nd; ++q) {
    const unsigned __int128 want_ex = static_cast<unsigned __int128>(below[q]) << f;
    const unsigned __int128 want_in = static_cast<unsigned __int128>(atmost[q]) << f;
    checked(2);
    if (static_cast<unsigned __int128>(s_ex[q]) != want_ex || static_cast<unsigned __int128>(s_in[q]) != want_in) {
      if (!bad) {
        first_bad = " v=" + str(dv[q]) + " sum_excl=" + std::to_string(s_ex[q]) + " want=" + u128str(want_ex) + " (true count below " + std::to_string(below[q]) +
          ") sum_incl=" + std::to_string(s_in[q]) + " want=" + u128str(want_in) + " (true count at-or-below " + std::to_string(atmost[q]) + ")";
      }
      bad++;
    }
  }
  if (bad) {
    fail(kp + "mean-rank-over-coin-outcomes-not-true-rank", ctx + " biased_values=" + std::to_string(bad) + "/" + std::to_string(nd) + " first:" + first_bad +
         " program=" + program_text(sc));
  }
  count(fam + "_exh_scenarios");
  if (exact_asserts) { count(fam + "_exh_exact_asserts", exact_asserts); count(fam + "_exh_scen_with_exact_region_clause"); }
  count(fam + "_exh_outcomes_enumerated", outcomes);
  count(fam + "_exh_values_checked", nd);
  if (f >= 10) count(fam + "_exh_scen_f_ge_10");
  if (sc.has_merge) count(fam + "_exh_scen_with_merge");
  if (sc.has_merge && f >= 10) count(fam + "_exh_scen_merge_f_ge_10");
  if (sc.has_rt) count(fam + "_exh_scen_with_roundtrip");
  if (sc.has_query_before_merge) count(fam + "_exh_scen_with_query_before_merge");
  if (sc.has_query_before_merge && f >= 4) count(fam + "_exh_scen_query_before_merge_f_ge_4");
  count(fam + "_exh_f_" + std::string(f < 10 ? "0" : "") + std::to_string(f));
  sig(mix64(sigacc, mix64(sc.ops.size(), nd)));
}

// measure the flip count of a scenario with the all-zero outcome
template<typename Fam>
int measure_flips(const Scenario& sc) {
  Script script;
  install_script(script, 0);
  ExecInfo info;
  try { auto root = execute<Fam>(sc, info); } catch (...) { remove_script(); throw; }
  remove_script();
  return static_cast<int>(info.flips);
}

// random shape for a family
template<typename Fam>
Shape gen_shape(Rng& r, bool want_merge) {
  Shape sh;
  sh.nsk = want_merge ? static_cast<int>(r.range(2, 5)) : 1;
  sh.parent.assign(sh.nsk, -1);
  for (int i = 1; i < sh.nsk; ++i) sh.parent[i] = static_cast<int>(r.below(static_cast<uint64_t>(i)));
  sh.w.resize(sh.nsk);
  const int wmode = static_cast<int>(r.below(3));
  for (int i = 0; i < sh.nsk; ++i) sh.w[i] = wmode == 0 ? 1.0 : (wmode == 1 ? 0.2 + r.unit() * 2 : (r.chance(0.3) ? 0.05 : 1.0 + r.unit()));
  if (sh.nsk > 1 && r.chance(0.2)) sh.w[0] = 0.0;   // root receives data only through merges (fresh target)
  Fam::gen_cfgs(r, sh.nsk, sh.cfg);
  sh.p_view = r.chance(0.3) ? 0.05 : 0.0;
  sh.p_qbm = r.chance(0.6) ? 0.8 : 0.0;
  if (r.chance(0.5)) for (int i = 0; i < sh.nsk; ++i) sh.quantum.push_back(Fam::len_quantum(sh.cfg[static_cast<size_t>(i)]));
  sh.p_rt = (Fam::allow_rt() && r.chance(0.25)) ? 0.5 : 0.0;
  sh.p_move = r.chance(0.3) ? 0.5 : (r.chance(0.5) ? 0.0 : 1.0);
  sh.value_mode = static_cast<int>(r.below(7));
  sh.domain = static_cast<int>(r.pick({2, 3, 5, 10, 20}));
  sh.seed = r.next();
  return sh;
}

// one exhaustive case: find a length whose flip count lies in [fmin, fmax], then enumerate
template<typename Fam>
void exhaustive_case(Rng& r, bool want_merge, int fmin, int fmax) {
  const Shape sh = gen_shape<Fam>(r, want_merge);
  int len = static_cast<int>(r.range(20, 120));
  Scenario best; int best_f = -1;
  for (int iter = 0; iter < 60; ++iter) {
    Scenario sc = build(sh, len, Fam::allow_rt());
    int f;
    try { f = measure_flips<Fam>(sc); }
    catch (const std::exception& e) {
      describe(std::string(Fam::name()) + " exhaustive " + sc.shape);
      checked();
      fail(std::string(Fam::name()) + "|exhaustive|" + (sc.has_merge ? "merge-tree" : (sc.has_rt ? "single-stream-serde-roundtrip" : "single-stream")) + "|exception-under-scripted-coin",
           sc.shape + " all-zero outcome, what=" + e.what() + " program=" + program_text(sc));
      return;
    }
    if (f <= fmax && f > best_f) { best = sc; best_f = f; }
    if (f >= fmin && f <= fmax) break;
    if (f < fmin) len = len + std::max(1, len / 6); else len = len - std::max(1, len / 8);
    if (len < 1) len = 1;
    if (len > 3000) break;
  }
  describe(std::string(Fam::name()) + " exhaustive " + (best_f >= 0 ? best.shape : std::string("(no scenario)")) + " f=" + std::to_string(best_f));
  if (best_f < 0) { count(std::string(Fam::name()) + "_exh_shape_skipped"); return; }
  if (want_sample()) sample("{\"part\":\"exhaustive\",\"family\":" + jstr(Fam::name()) + ",\"shape\":" + jstr(best.shape) + ",\"flips\":" + std::to_string(best_f) +
                            ",\"program\":" + jstr(program_text(best, 200)) + "}");
  run_exhaustive<Fam>(best, static_cast<unsigned>(best_f));
}

// ------------------------------------------------------------------------------------------------
// sampled part
struct Cell {
  int cfg;            // family configuration code of the root
  uint64_t n;
  int order;          // 0 sorted, 1 random, 2 zipf duplicates, 3 reversed
  int merge;          // 0 single stream, 1 four-way merge same cfg, 2 four-way merge mixed cfg (Fam::mixed_cfg)
  int trials;
};
inline const char* order_name(int o) { static const char* n[] = {"sorted", "random", "zipf-dups", "reversed"}; return n[o]; }

struct Welford {
  double n = 0, mean = 0, m2 = 0;
  void add(double x) { n += 1; const double d = x - mean; mean += d / n; m2 += d * (x - mean); }
  double var() const { return n > 1 ? m2 / (n - 1) : 0; }
};

struct Truth {
  std::vector<float> stream;               // base stream (cell-fixed multiset; trial permutes it for order=random/zipf)
  std::vector<float> dv;                   // distinct values ascending
  std::vector<uint64_t> below, atmost;     // exact counts
  uint64_t n;
  double rank(size_t qi, bool incl) const { return static_cast<double>(incl ? atmost[qi] : below[qi]) / static_cast<double>(n); }
};

inline Truth make_truth(const Cell& c, Rng& r) {
  Truth t; t.n = c.n;
  t.stream.resize(c.n);
  if (c.order == 2) {
    const double D = 2000;
    for (uint64_t i = 0; i < c.n; ++i) { const double u = r.unit(); t.stream[i] = static_cast<float>(std::floor(D * u * u * u)); }
  } else {
    for (uint64_t i = 0; i < c.n; ++i) t.stream[i] = static_cast<float>(i);
  }
  std::vector<float> s = t.stream;
  std::sort(s.begin(), s.end());
  for (size_t i = 0; i < s.size();) {
    size_t j = i; while (j < s.size() && s[j] == s[i]) ++j;
    t.dv.push_back(s[i]); t.below.push_back(i); t.atmost.push_back(j);
    i = j;
  }
  if (c.order == 3) std::reverse(t.stream.begin(), t.stream.end());
  return t;
}

// index into dv of the distinct value whose inclusive true rank is the first >= p
inline size_t value_at_rank(const Truth& t, double p) {
  const uint64_t target = static_cast<uint64_t>(std::ceil(p * static_cast<double>(t.n)));
  size_t lo = 0, hi = t.dv.size() - 1;
  while (lo < hi) { size_t mid = (lo + hi) / 2; if (t.atmost[mid] >= target) hi = mid; else lo = mid + 1; }
  return lo;
}

// feed the (possibly permuted) stream: single sketch or 4 unequal contiguous chunks merged as ((0+1)+(2+3))
template<typename Fam>
std::unique_ptr<typename Fam::SK> feed(const Cell& c, const std::vector<float>& stream, bool round_chunks = false) {
  typedef typename Fam::SK SK;
  make_seq() = 0;
  if (c.merge == 0) {
    std::unique_ptr<SK> s(new SK(Fam::make(c.cfg)));
    for (float v : stream) s->update(enc(v));
    return s;
  }
  if (c.merge == 3) {
    // an older sketch (first 1/21 of the stream) is merged into a FRESH one, which is queried and then receives the long rest
    std::unique_ptr<SK> old_sk(new SK(Fam::make(c.cfg))), s(new SK(Fam::make(c.cfg)));
    const size_t n0 = stream.size() / 21;
    for (size_t j = 0; j < n0; ++j) old_sk->update(enc(stream[j]));
    s->merge(*old_sk);
    { volatile double x = s->get_rank(enc(stream[0]), true); (void)x; }
    for (size_t j = n0; j < stream.size(); ++j) s->update(enc(stream[j]));
    return s;
  }
  static const double cut_default[5] = {0.0, 0.4, 0.7, 0.9, 1.0};
  const bool mixed = c.merge == 2 || c.merge == 4;
  const double* cut = mixed ? Fam::mixed_cuts() : cut_default;
  // merge == 4: the mixed-k merge tree is built from the first 80% of the stream, the result is serialized and restored
  // (stream image in even trials, byte image in odd ones) and the RESTORED sketch receives the rest
  const size_t tree_len = c.merge == 4 ? stream.size() * 4 / 5 : stream.size();
  size_t bound[5];
  for (int i = 0; i <= 4; ++i) bound[i] = static_cast<size_t>(cut[i] * static_cast<double>(tree_len));
  const size_t quantum = round_chunks ? static_cast<size_t>(Fam::chunk_quantum(c.cfg)) : 0;
  if (quantum > 0 && stream.size() >= 8 * quantum) {
    // every merge SOURCE (parts 1, 2, 3) gets a length that is a multiple of the quantum (classic: of 2k of every k involved, so
    // the sources arrive with an empty base buffer); part 0, which is only ever a merge target, takes the remainder
    size_t end = stream.size();
    for (int i = 3; i >= 1; --i) { const size_t len = std::max<size_t>(1, (bound[i + 1] - bound[i] + quantum / 2) / quantum) * quantum; bound[i + 1] = end; bound[i] = end - len; end = bound[i]; }
  }
  std::unique_ptr<SK> p[4];
  for (int i = 0; i < 4; ++i) {
    p[i].reset(new SK(Fam::make(mixed ? Fam::mixed_cfg(c.cfg, i) : c.cfg)));
    for (size_t j = bound[i]; j < bound[i + 1]; ++j) p[i]->update(enc(stream[j]));
  }
  // the destinations are queried right before each merge (as a monitoring loop does): the query sorts level 0 / the base
  // buffer as a side effect and the merge must not rely on that state afterwards
  const Item probe = enc(stream[stream.size() / 2]);
  if (!p[0]->is_empty()) { volatile double x = p[0]->get_rank(probe, true); (void)x; }
  p[0]->merge(*p[1]);
  if (!p[2]->is_empty()) { volatile double x = p[2]->get_rank(probe, true); (void)x; }
  p[2]->merge(std::move(*p[3]));
  if (!p[0]->is_empty()) { volatile double x = p[0]->get_rank(probe, true); (void)x; }
  p[0]->merge(*p[2]);
  if (c.merge == 4) {
    std::unique_ptr<SK> restored(new SK(Fam::roundtrip_image(*p[0], round_chunks)));
    checked();
    if (Fam::published_error_text(*restored) != Fam::published_error_text(*p[0]) || restored->get_n() != p[0]->get_n()) {
      fail(std::string(Fam::name()) + "|sampled|merge-4way-mixed-k-serde|published-error-changed-by-serialization-round-trip",
           std::string(round_chunks ? "byte image" : "stream image") + ": original publishes " + Fam::published_error_text(*p[0]) + " n=" + std::to_string(p[0]->get_n()) +
           ", restored publishes " + Fam::published_error_text(*restored) + " n=" + std::to_string(restored->get_n()));
    }
    for (size_t j = tree_len; j < stream.size(); ++j) restored->update(enc(stream[j]));
    return restored;
  }
  return std::move(p[0]);
}

// the sorted view of a sketch must be ascending and carry total weight n
template<typename SK>
bool sorted_view_consistent(const SK& s, uint64_t n, std::string& why, const std::vector<float>* inputs = nullptr) {   // inputs: ascending distinct input values
  auto v = s.get_sorted_view();
  bool first = true; float prev = 0; uint64_t total = 0, prev_cum = 0; size_t pos = 0;
  for (auto it = v.begin(); it != v.end(); ++it, ++pos) {
    const float x = dec((*it).first); const uint64_t cum = (*it).second;
    if (inputs && !std::binary_search(inputs->begin(), inputs->end(), x)) { why = "retained item at position " + std::to_string(pos) + " (decoded " + str(x) + ") was never an input"; return false; }
    if (!first && x < prev) { why = "item " + str(x) + " at position " + std::to_string(pos) + " follows " + str(prev); return false; }
    if (cum <= prev_cum) { why = "cumulative weight not increasing at position " + std::to_string(pos); return false; }
    first = false; prev = x; prev_cum = cum; total = cum;
  }
  if (total != n) { why = "total weight " + std::to_string(total) + " != n " + std::to_string(n); return false; }
  return true;
}

inline std::string cell_text(const char* fam, const std::string& cfg, const Cell& c) {
  return std::string(fam) + " sampled " + cfg + " n=" + std::to_string(c.n) + " order=" + order_name(c.order) +
         " merge=" + (c.merge == 0 ? "none" : (c.merge == 1 ? "4-way" : (c.merge == 2 ? "4-way-mixed-k" : (c.merge == 3 ? "older-sketch-into-fresh-then-long-stream" : "4-way-mixed-k-then-serde-round-trip-then-continue")))) + " trials=" + std::to_string(c.trials);
}

// mean-rank z-test shared by all families: mean estimated rank over the trials vs the true rank.
// The standard error is the larger of the sample value and sigma_floor/sqrt(T): for structured
// (e.g. sorted) streams the estimate at a point can be a rare-event variable (true rank + J with
// probability ~1/T, else true rank - J/T...), for which the sample deviation of a few hundred trials
// badly underestimates sigma; the floor is a fraction of the error scale the sketch itself publishes.
// sigma_floor == 0 (the sketch claims the rank is exact) demands equality.
inline void mean_rank_test(const std::string& kp, const std::string& ctx, const Truth& t, const std::vector<size_t>& qidx,
                           const std::vector<Welford>& acc, const std::vector<double>& sigma_floor, double zmax) {
  for (size_t i = 0; i < qidx.size(); ++i) {
    const double tr = t.rank(qidx[i], true);
    const double se = std::sqrt(std::max(acc[i].var(), sigma_floor[i] * sigma_floor[i]) / acc[i].n);
    const double dev = std::fabs(acc[i].mean - tr);
    VF_CHECK(dev <= zmax * se + 1e-12, kp + "mean-estimated-rank-deviates-from-true-rank",
             ctx + " v=" + str(t.dv[qidx[i]]) + " true_rank=" + str(tr) + " mean_est=" + str(acc[i].mean) + " sample_sd=" + str(std::sqrt(acc[i].var())) +
             " sigma_floor=" + str(sigma_floor[i]) + " se_used=" + str(se) + " z=" + str(se > 0 ? dev / se : 0.0) + " zmax=" + str(zmax));
  }
}

// ------------------------------------------------------------------------------------------------
// doubling merges: two lineages A, B of the same multiset (different arrival orders and coins) are merged into each other
// again and again (A <- B, B <- old A), so n doubles per step and passes 2^32 .. 2^44 although every merge only handles
// retained items; the true rank of every value stays what it was.  After every merge, on both sketches: get_n and the
// sorted view's total weight == n0 * 2^j (64-bit), view ascending and made of inputs, get_rank == get_CDF at the same
// point, every query method == fresh sorted view, and the estimate within what the sketch publishes
// (Fam::within_published) for at least 95% of (step, query, criterion) pairs.
template<typename Fam>
void doubling_case(int cfg, uint64_t n0, int steps, int reps, Rng& r) {
  typedef typename Fam::SK SK;
  const std::string fam = Fam::name();
  const std::string kp = fam + "|doubling-merges|";
  const std::string ctx0 = fam + " doubling merges " + Fam::cfg_text(cfg) + " n0=" + std::to_string(n0) + " steps=" + std::to_string(steps) + " reps=" + std::to_string(reps);
  describe(ctx0);
  std::vector<float> inputs(n0); for (uint64_t i = 0; i < n0; ++i) inputs[i] = static_cast<float>(i);
  std::vector<float> qv;
  for (int i = 0; i < 40; ++i) qv.push_back(static_cast<float>((2 * i + 1) * n0 / 80));
  for (uint64_t d : {uint64_t(0), uint64_t(1), uint64_t(5), uint64_t(20), uint64_t(60)}) { qv.push_back(static_cast<float>(d)); qv.push_back(static_cast<float>(n0 - 1 - d)); }
  std::sort(qv.begin(), qv.end()); qv.erase(std::unique(qv.begin(), qv.end()), qv.end());
  std::vector<Item> iq; for (float v : qv) iq.push_back(enc(v));
  uint64_t pairs = 0, inside = 0; std::string worst;
  for (int rep = 0; rep < reps; ++rep) {
    const uint64_t sd = r.next();
    ds::random_utils::random_bit.script = nullptr; ds::random_utils::random_bit.seed(static_cast<uint32_t>(sd)); ds::random_utils::rand.seed(sd ^ 0x51ed);
    std::vector<float> pa = inputs, pb = inputs; r.shuffle(pa); r.shuffle(pb);
    SK A(Fam::make(cfg)), B(Fam::make(cfg));
    for (float v : pa) A.update(enc(v));
    for (float v : pb) B.update(enc(v));
    uint64_t n = n0;
    for (int j = 1; j <= steps; ++j) {
      SK oldA(A);
      if (j & 1) A.merge(B); else { SK tmp(B); A.merge(std::move(tmp)); }
      B.merge(oldA);
      n *= 2;
      const std::string ctx = ctx0 + " rep=" + std::to_string(rep) + " coin_seed=" + std::to_string(static_cast<uint32_t>(sd)) + " after merge " + std::to_string(j) + " n=" + std::to_string(n);
      for (int which = 0; which < 2; ++which) {
        const SK& s = which ? B : A;
        VF_CHECK(s.get_n() == n, kp + "n-not-true-n", ctx + " get_n=" + std::to_string(s.get_n()));
        { std::string why; const bool vok = sorted_view_consistent(s, n, why, &inputs);
          VF_CHECK(vok, kp + (why.find("never an input") != std::string::npos ? "retained-item-not-an-input" : "sorted-view-not-sorted-or-total-weight-not-n"), ctx + " " + why); }
        { std::string why; const bool qok = queries_match_fresh_view(s, why); VF_CHECK(qok, kp + "query-answer-differs-from-current-sorted-view", ctx + " " + why); }
        for (int incl = 0; incl < 2; ++incl) {
          auto cdf = s.get_CDF(iq.data(), static_cast<uint32_t>(iq.size()), incl == 1);
          for (size_t i = 0; i < qv.size(); ++i) {
            const double est = s.get_rank(iq[i], incl == 1);
            const double tr = (static_cast<double>(qv[i]) + (incl ? 1.0 : 0.0)) / static_cast<double>(n0);
            VF_CHECK(std::fabs(est - cdf[i]) <= 1e-12, kp + "get_rank-differs-from-get_CDF", ctx + " v=" + str(qv[i]) + (incl ? " inclusive" : " exclusive") + " get_rank=" + str(est) + " get_CDF=" + str(cdf[i]) + " true=" + str(tr));
            const bool in = Fam::within_published(s, est, tr);
            pairs++; inside += in;
            if (!in && worst.empty()) worst = " first outside: " + ctx + " v=" + str(qv[i]) + " est=" + str(est) + " true=" + str(tr);
          }
        }
      }
      count(fam + "_dbl_merges", 2);
      if (n >= (1ULL << 34)) count(fam + "_dbl_merges_n_ge_2p34", 2);
      if (n >= (1ULL << 42)) count(fam + "_dbl_merges_n_ge_2p42", 2);
    }
  }
  const double frac = static_cast<double>(inside) / static_cast<double>(std::max<uint64_t>(1, pairs));
  VF_CHECK(frac >= 0.95, kp + "estimate-outside-published-error-too-often", ctx0 + " pairs=" + std::to_string(pairs) + " fraction_within_published=" + str(frac) + " required=0.95" + worst);
  count(fam + "_dbl_cases");
  count(fam + "_dbl_pairs", pairs);
  sig(mix64(mix64(static_cast<uint64_t>(cfg), n0), inside));
  if (getenv("C08_VERBOSE")) fprintf(stderr, "%s pairs=%llu frac=%.5f\n", ctx0.c_str(), (unsigned long long)pairs, frac);
}

// KLL and classic: published normalized rank error (single- and double-sided)
template<typename Fam>
void sampled_cell_eps(const Cell& c, Rng& r) {
  typedef typename Fam::SK SK;
  const std::string fam = Fam::name();
  const std::string ctx = cell_text(Fam::name(), Fam::cfg_text(c.cfg), c);
  describe(ctx);
  const std::string kp = fam + "|sampled|" + (c.merge == 0 ? "single-stream" : (c.merge == 1 ? "merge-4way" : (c.merge == 4 ? "merge-4way-mixed-k-serde" : "merge-4way-mixed-k"))) + "|";
  Truth t = make_truth(c, r);
  // 200-point grid by true quantile
  std::vector<size_t> grid;
  for (int i = 0; i < 200; ++i) { const size_t q = value_at_rank(t, (i + 0.5) / 200.0); if (grid.empty() || grid.back() != q) grid.push_back(q); }
  // PMF split points: every 10th grid point (about 20 splits -> bins of about 5% mass)
  std::vector<Item> splits; std::vector<size_t> split_q;
  for (size_t i = 4; i < grid.size(); i += 10) { splits.push_back(enc(t.dv[grid[i]])); split_q.push_back(grid[i]); }
  std::vector<size_t> zq; for (size_t i = 0; i < grid.size(); i += std::max<size_t>(1, grid.size() / 20)) zq.push_back(grid[i]);
  std::vector<Welford> zacc(zq.size());
  uint64_t ok1 = 0, ok2 = 0;
  double eps1 = 0, eps2 = 0, worst1 = 0, worst2 = 0;
  std::vector<float> stream = t.stream;
  for (int trial = 0; trial < c.trials; ++trial) {
    const uint64_t s = r.next();
    ds::random_utils::random_bit.script = nullptr;
    ds::random_utils::random_bit.seed(static_cast<uint32_t>(s));
    ds::random_utils::rand.seed(s ^ 0x9e3779b97f4a7c15ULL);
    if (c.order == 1 || c.order == 2) r.shuffle(stream);
    const bool round_chunks = (trial & 1) == 1;   // odd trials: merge sources with lengths that are multiples of the family's buffer quantum
    std::unique_ptr<SK> sk = feed<Fam>(c, stream, round_chunks);
    VF_CHECK(sk->get_n() == c.n, kp + "n-not-true-n", ctx + " get_n=" + std::to_string(sk->get_n()));
    { std::string why; const bool vok = sorted_view_consistent(*sk, c.n, why, &t.dv);
      VF_CHECK(vok, kp + (why.find("never an input") != std::string::npos ? "retained-item-not-an-input" : "sorted-view-not-sorted"), ctx + " trial=" + std::to_string(trial) + " " + why); }
    { std::string why; const bool qok = queries_match_fresh_view(*sk, why); VF_CHECK(qok, kp + "query-answer-differs-from-current-sorted-view", ctx + " trial=" + std::to_string(trial) + (round_chunks ? " (quantised merge sources) " : " ") + why); }
    if (round_chunks && c.merge && Fam::chunk_quantum(c.cfg) > 0) count(fam + "_smp_trials_sources_with_empty_base_buffer");
    eps1 = sk->get_normalized_rank_error(false);
    eps2 = sk->get_normalized_rank_error(true);
    double maxerr = 0;
    for (size_t q : grid) {
      for (int incl = 0; incl < 2; ++incl) {
        const double e = std::fabs(sk->get_rank(enc(t.dv[q]), incl == 1) - t.rank(q, incl == 1));
        if (e > maxerr) maxerr = e;
      }
    }
    for (size_t i = 0; i < zq.size(); ++i) zacc[i].add(sk->get_rank(enc(t.dv[zq[i]]), true));
    // PMF (exclusive criterion: bin i = mass in [split[i-1], split[i]))
    double maxpmf = 0;
    if (!splits.empty()) {
      auto pmf = sk->get_PMF(splits.data(), static_cast<uint32_t>(splits.size()), false);
      double prev = 0;
      for (size_t i = 0; i <= splits.size(); ++i) {
        const double cur = i < splits.size() ? t.rank(split_q[i], false) : 1.0;
        const double e = std::fabs(pmf[i] - (cur - prev));
        if (e > maxpmf) maxpmf = e;
        prev = cur;
      }
    }
    if (maxerr <= eps1) ok1++;
    if (maxpmf <= eps2) ok2++;
    worst1 = std::max(worst1, maxerr); worst2 = std::max(worst2, maxpmf);
    if (sk->is_estimation_mode()) count(fam + "_smp_trials_estimation_mode");
    count(fam + "_smp_trials");
  }
  const double T = c.trials;
  const double thr = 0.99 - 0.03 - 4 * std::sqrt(0.99 * 0.01 / T);
  const double f1 = ok1 / T, f2 = ok2 / T;
  const std::string res = ctx + " eps=" + str(eps1) + " eps_pmf=" + str(eps2) + " frac_within_eps=" + str(f1) + " frac_within_eps_pmf=" + str(f2) +
    " threshold=" + str(thr) + " worst_err=" + str(worst1) + " worst_pmf_err=" + str(worst2);
  VF_CHECK(f1 >= thr, kp + "rank-error-exceeds-published-single-sided-too-often", res);
  VF_CHECK(f2 >= thr, kp + "pmf-error-exceeds-published-double-sided-too-often", res);
  if (c.trials >= 30) mean_rank_test(kp, ctx, t, zq, zacc, std::vector<double>(zq.size(), eps1 / 4), 6.5);   // too few trials: no meaningful z-test
  if (c.cfg >= 32768) { count(fam + "_smp_cells_k_ge_32768"); if (worst1 > 0) count(fam + "_smp_cells_k_ge_32768_with_rank_error"); }
  count(fam + "_smp_cells");
  if (c.merge) count(fam + "_smp_cells_merged");
  if (c.merge == 2) count(fam + "_smp_cells_mixed_k");
  if (c.merge == 4) count(fam + "_smp_cells_mixed_k_serde");
  count(fam + "_smp_cells_" + order_name(c.order));
  if (f1 < 1.0) count(fam + "_smp_cells_with_some_trial_beyond_eps");
  sig(mix64(mix64(c.n, static_cast<uint64_t>(c.cfg)), mix64(static_cast<uint64_t>(c.order * 4 + c.merge), dbits(std::floor(worst1 * 1e9)))));
  if (getenv("C08_VERBOSE")) fprintf(stderr, "%s\n", res.c_str());
  if (want_sample()) sample("{\"part\":\"sampled\",\"cell\":" + jstr(res) + "}");
}

}} // namespace vf::c08

#endif
