// C19: adapters shared by the Theta and Tuple families (update sketch, compact sketch, union,
// intersection, a-not-b).  TT (traits) hides the differences between the two APIs:
//   typedef UpdateSk, CompactSk, Union, Intersection, ANotB;   static const char* fam();
//   static void make_update(void* mem, const TCfg&, uint8_t lg_k, Arena*);     // placement-new via builder
//   static void feed(UpdateSk&, uint64_t key, Rng&);                              // one update() call, random overload
//   template<class E> static std::string entry_str(const E&);
//   static std::string image(const CompactSk&);                                   // hex of serialize()
//   static void deserialize(void* mem, const CompactSk& src, const TCfg&, Arena*, Rng&);
//   static void make_union(void* mem, const TCfg&, uint8_t lg_k, Arena*);  make_intersection(void*, const TCfg&, Arena*);  make_anotb(...)
#ifndef VF_C19_THETALIKE_HPP
#define VF_C19_THETALIKE_HPP
#include "c19_life.hpp"
#include <sstream>

namespace vf {

struct TCfg { uint8_t lg_k1, lg_k2; int rf; float p; uint64_t seed; uint64_t domain; uint32_t max_batch; int rf2; float p2; uint64_t seed2; };
// objects of one pool get one of two configurations, so assignment has to transfer every configuration field
inline TCfg tcfg_variant(const TCfg& c, Rng& r, bool vary_seed) {
  TCfg v = c;
  if (r.coin()) { v.p = c.p2; v.rf = c.rf2; if (vary_seed) v.seed = c.seed2; }
  return v;
}
inline TCfg gen_tcfg(Rng& r) {
  TCfg c;
  c.lg_k1 = static_cast<uint8_t>(r.range(5, 9)); c.lg_k2 = r.coin() ? c.lg_k1 : static_cast<uint8_t>(r.range(5, 9));
  c.rf = static_cast<int>(r.below(4));
  static const float ps[] = {1.0f, 1.0f, 1.0f, 0.5f, 0.05f};
  c.p = ps[r.below(5)];
  c.seed = r.coin() ? datasketches::DEFAULT_SEED : r.next();
  c.rf2 = static_cast<int>(r.below(4)); c.p2 = ps[r.below(5)]; c.seed2 = r.next();
  c.domain = r.chance(0.3) ? 200 : 1000000;
  c.max_batch = r.chance(0.3) ? 3000 : (r.coin() ? 300 : 20);
  return c;
}
inline std::string tcfg_str(const TCfg& c) {
  return "lg_k1=" + std::to_string(c.lg_k1) + " lg_k2=" + std::to_string(c.lg_k2) + " rf=" + std::to_string(c.rf) + " p=" + str(c.p) +
         " seed=" + std::to_string(c.seed) + " rf2=" + std::to_string(c.rf2) + " p2=" + str(c.p2) + " domain=" + std::to_string(c.domain) + " max_batch=" + std::to_string(c.max_batch);
}

// TT may declare `static const bool ITEM_PAYLOAD_DOUBLE = true;` (summaries are arrays of double with their own allocator)
template<typename TT, typename = void> struct tt_payload_double { static const bool value = false; };
template<typename TT> struct tt_payload_double<TT, std::void_t<decltype(TT::ITEM_PAYLOAD_DOUBLE)>> { static const bool value = TT::ITEM_PAYLOAD_DOUBLE; };

template<typename Sk, typename TT> std::string thetalike_readout(const Sk& s) {
  std::string o = "empty=" + std::to_string(s.is_empty()) + " theta=" + std::to_string(s.get_theta64()) + " ret=" + std::to_string(s.get_num_retained()) +
    " est=" + dstr(s.get_estimate()) + " ordered=" + std::to_string(s.is_ordered()) + " seedhash=" + std::to_string(s.get_seed_hash()) + " entries=";
  for (auto it = s.begin(); it != s.end(); ++it) { o += TT::entry_str(*it); o += ','; }
  return o;
}

// fill a temporary update sketch (in arena a) with a random batch
template<typename TT> void fill_update(typename TT::UpdateSk& u, const TCfg& c, Rng& r) {
  const uint64_t n = r.below(c.max_batch + 1);
  const uint64_t base = r.chance(0.5) ? 0 : r.below(c.domain);
  for (uint64_t i = 0; i < n; ++i) TT::feed(u, r.coin() ? base + i : r.below(c.domain), r);
}

// ---- update sketch
template<typename TT> struct TLUpdateFam {
  typedef typename TT::UpdateSk Obj;
  typedef TCfg Cfg;
  static const bool ITEM_PAYLOAD_DOUBLE = tt_payload_double<TT>::value;
  static const char* name() { static const std::string n = std::string(TT::fam()) + "_update"; return n.c_str(); }
  static Cfg gen_cfg(Rng& r) { return gen_tcfg(r); }
  static std::string cfg_str(const Cfg& c) { return tcfg_str(c); }
  static void construct(void* mem, const Cfg& c, Arena* a, Rng& r) { const TCfg v = tcfg_variant(c, r, true); TT::make_update(mem, v, r.coin() ? c.lg_k1 : c.lg_k2, a); }
  static void mutate(Obj& o, const Cfg& c, Rng& r, Arena*) {
    if (r.chance(0.1)) { o.trim(); xcount(std::string(name()) + ".trim"); return; }
    fill_update<TT>(o, c, r);
  }
  static std::string readout(const Obj& o, const Cfg&) {
    std::string s = thetalike_readout<Obj, TT>(o) + " lg_k=" + std::to_string(o.get_lg_k());
    auto cs = o.compact(true);
    s += " image=" + TT::image(cs);
    return s;
  }
  static void query(const Obj& o, const Cfg&, Rng& r) {
    (void)o.get_lower_bound(1); (void)o.get_upper_bound(2);
    auto c1 = o.compact(r.coin());
    typename TT::CompactSk c2(o, r.coin());
    (void)c1.get_estimate(); (void)c2.get_estimate();
  }
  static const bool SINGLE_INSTANCE = true;
  static Arena* arena_of(const Obj& o) { return o.get_allocator().arena; }
  static const bool HAS_MERGE_REF = false, HAS_MERGE_MOVE = false, HAS_RESET = true, HAS_ROUNDTRIP = false;
  static void merge_ref(Obj&, const Obj&, const Cfg&) {}
  static void merge_move(Obj&, Obj&&, const Cfg&) {}
  static void reset(Obj& o, const Cfg&) { o.reset(); }
  static void roundtrip(void*, const Obj&, const Cfg&, Arena*, Rng&) {}
  static std::string mode(const Obj& o, const Cfg&) { return o.is_empty() ? "empty" : (o.is_estimation_mode() ? (o.get_num_retained() ? "estimation" : "estimation_zero_retained") : "exact"); }
};

// ---- compact sketch (immutable: "mutation" = assignment from a freshly built one)
template<typename TT> struct TLCompactFam {
  typedef typename TT::CompactSk Obj;
  typedef TCfg Cfg;
  static const bool ITEM_PAYLOAD_DOUBLE = tt_payload_double<TT>::value;
  static const char* name() { static const std::string n = std::string(TT::fam()) + "_compact"; return n.c_str(); }
  static Cfg gen_cfg(Rng& r) { return gen_tcfg(r); }
  static std::string cfg_str(const Cfg& c) { return tcfg_str(c); }
  static void construct(void* mem, const Cfg& c, Arena* a, Rng& r) {
    alignas(typename TT::UpdateSk) unsigned char um[sizeof(typename TT::UpdateSk)];
    const TCfg v = tcfg_variant(c, r, false);
    TT::make_update(um, v, r.coin() ? c.lg_k1 : c.lg_k2, a);
    typename TT::UpdateSk& u = *std::launder(reinterpret_cast<typename TT::UpdateSk*>(um));
    struct G { typename TT::UpdateSk& u; ~G() { typedef typename TT::UpdateSk U; u.~U(); } } g{u};
    fill_update<TT>(u, c, r);
    if (r.coin()) new (mem) Obj(u.compact(r.coin()));
    else new (mem) Obj(u, r.coin());
  }
  static void mutate(Obj& o, const Cfg& c, Rng& r, Arena* scratch) {
    alignas(Obj) unsigned char m[sizeof(Obj)];
    construct(m, c, scratch, r);
    Obj& t = *std::launder(reinterpret_cast<Obj*>(m));
    if (r.coin()) o = t; else o = std::move(t);
    t.~Obj();
  }
  static std::string readout(const Obj& o, const Cfg&) { return thetalike_readout<Obj, TT>(o) + " image=" + TT::image(o); }
  static void query(const Obj& o, const Cfg&, Rng&) { (void)o.get_lower_bound(1); (void)o.get_upper_bound(3); }
  static Arena* arena_of(const Obj& o) { return o.get_allocator().arena; }
  static const bool HAS_MERGE_REF = false, HAS_MERGE_MOVE = false, HAS_RESET = false, HAS_ROUNDTRIP = true;
  static void merge_ref(Obj&, const Obj&, const Cfg&) {}
  static void merge_move(Obj&, Obj&&, const Cfg&) {}
  static void reset(Obj&, const Cfg&) {}
  static void roundtrip(void* mem, const Obj& src, const Cfg& c, Arena* a, Rng& r) { TT::deserialize(mem, src, c, a, r); }
  static std::string mode(const Obj& o, const Cfg&) { return o.is_empty() ? "empty" : (o.is_estimation_mode() ? "estimation" : (o.get_num_retained() == 1 ? "single" : "exact")); }
};

// temporary update sketch (placement-built through the family's builder)
template<typename TT> struct TmpUpdate {
  typedef typename TT::UpdateSk U;
  alignas(U) unsigned char m[sizeof(U)];
  U& u() { return *std::launder(reinterpret_cast<U*>(m)); }
  TmpUpdate(const TCfg& c, uint8_t lg_k, Arena* a) { TT::make_update(m, c, lg_k, a); }
  ~TmpUpdate() { u().~U(); }
};
// the sketch `consumed` was passed as an rvalue to a set operation: it must accept assignment from a live
// sketch of the same type (same or different configuration), then equal it, and be usable afterwards
template<typename TT> void reuse_consumed_update(typename TT::UpdateSk& consumed, const TCfg& c, Rng& r, Arena* scratch) {
  const TCfg v = tcfg_variant(c, r, true);
  TmpUpdate<TT> live(v, r.coin() ? c.lg_k1 : c.lg_k2, scratch);
  fill_update<TT>(live.u(), c, r);
  typedef typename TT::UpdateSk U;
  reuse_consumed_operand(consumed, live.u(), r,
    [](const U& s) { return thetalike_readout<U, TT>(s); },
    [&](U& s) { if (r.coin()) s.reset(); fill_update<TT>(s, c, r); if (r.coin()) s.trim(); (void)s.get_estimate(); });
}
template<typename TT> void reuse_consumed_compact(typename TT::CompactSk& consumed, const TCfg& c, Rng& r, Arena* scratch) {
  const TCfg v = tcfg_variant(c, r, false);
  TmpUpdate<TT> src(v, r.coin() ? c.lg_k1 : c.lg_k2, scratch);
  fill_update<TT>(src.u(), c, r);
  typedef typename TT::CompactSk CS;
  CS live = src.u().compact(r.coin());
  reuse_consumed_operand(consumed, live, r,
    [](const CS& s) { return thetalike_readout<CS, TT>(s) + " image=" + TT::image(s); },
    [](CS& s) { (void)s.get_estimate(); });
}

// feed a set-operation object with a temporary sketch: const& / && x update / compact (ordered or not)
template<typename TT, typename Op> void feed_setop(Op& op, const TCfg& c, Rng& r, Arena* scratch, const char* fam_name) {
  alignas(typename TT::UpdateSk) unsigned char um[sizeof(typename TT::UpdateSk)];
  TT::make_update(um, c, r.coin() ? c.lg_k1 : c.lg_k2, scratch);
  typedef typename TT::UpdateSk U;
  U& u = *std::launder(reinterpret_cast<U*>(um));
  struct G { U& u; ~G() { u.~U(); } } g{u};
  fill_update<TT>(u, c, r);
  const uint64_t how = r.below(4);
  if (how == 0) { OperandWatch w(scratch, false, "setop-update"); op.update(u); }
  else if (how == 1) { { OperandWatch w(scratch, true, "setop-update"); op.update(std::move(u)); } xcount(std::string(fam_name) + ".merge_move"); if (r.coin()) reuse_consumed_update<TT>(u, c, r, scratch); }
  else {
    typename TT::CompactSk cs = u.compact(r.coin());
    if (how == 2) { OperandWatch w(scratch, false, "setop-update"); op.update(cs); }
    else { { OperandWatch w(scratch, true, "setop-update"); op.update(std::move(cs)); } xcount(std::string(fam_name) + ".merge_move"); if (r.coin()) reuse_consumed_compact<TT>(cs, c, r, scratch); }
  }
  if (how == 0 || how == 2) xcount(std::string(fam_name) + ".merge_ref");
}

template<typename TT> struct TLUnionFam {
  typedef typename TT::Union Obj;
  typedef TCfg Cfg;
  static const bool ITEM_PAYLOAD_DOUBLE = tt_payload_double<TT>::value;
  static const char* name() { static const std::string n = std::string(TT::fam()) + "_union"; return n.c_str(); }
  static Cfg gen_cfg(Rng& r) { return gen_tcfg(r); }
  static std::string cfg_str(const Cfg& c) { return tcfg_str(c); }
  static void construct(void* mem, const Cfg& c, Arena* a, Rng& r) { const TCfg v = tcfg_variant(c, r, false); TT::make_union(mem, v, r.coin() ? c.lg_k1 : c.lg_k2, a); }
  static void mutate(Obj& o, const Cfg& c, Rng& r, Arena* scratch) {
    if (r.chance(0.08)) {   // feed the union its own result (a separate object holding the same entries): safety only
      auto res = o.get_result(r.coin());
      if (r.coin()) o.update(res); else o.update(std::move(res));
      xcount(std::string(name()) + ".update_with_own_result");
      return;
    }
    feed_setop<TT>(o, c, r, scratch, name());
  }
  static std::string readout(const Obj& o, const Cfg&) {
    auto res = o.get_result(true);
    return thetalike_readout<typename TT::CompactSk, TT>(res) + " image=" + TT::image(res);
  }
  static void query(const Obj& o, const Cfg&, Rng&) { auto res = o.get_result(false); (void)res.get_estimate(); }
  static Arena* arena_of(const Obj& o) { return o.state_.table_.allocator_.arena; }   // private members: -fno-access-control
  static const bool HAS_MERGE_REF = false, HAS_MERGE_MOVE = false, HAS_RESET = true, HAS_ROUNDTRIP = false;
  static void merge_ref(Obj&, const Obj&, const Cfg&) {}
  static void merge_move(Obj&, Obj&&, const Cfg&) {}
  static void reset(Obj& o, const Cfg&) { o.reset(); }
  static void roundtrip(void*, const Obj&, const Cfg&, Arena*, Rng&) {}
  static std::string mode(const Obj& o, const Cfg&) { auto res = o.get_result(false); return res.is_empty() ? "empty" : (res.is_estimation_mode() ? "estimation" : "exact"); }
};

template<typename TT> struct TLIntersectionFam {
  typedef typename TT::Intersection Obj;
  typedef TCfg Cfg;
  static const bool ITEM_PAYLOAD_DOUBLE = tt_payload_double<TT>::value;
  static const char* name() { static const std::string n = std::string(TT::fam()) + "_intersection"; return n.c_str(); }
  static Cfg gen_cfg(Rng& r) { TCfg c = gen_tcfg(r); c.domain = r.coin() ? 300 : 3000; return c; }   // overlapping inputs
  static std::string cfg_str(const Cfg& c) { return tcfg_str(c); }
  static void construct(void* mem, const Cfg& c, Arena* a, Rng&) { TT::make_intersection(mem, c, a); }
  static void mutate(Obj& o, const Cfg& c, Rng& r, Arena* scratch) { feed_setop<TT>(o, c, r, scratch, name()); }
  static std::string readout(const Obj& o, const Cfg&) {
    if (!o.has_result()) return "no-result";
    auto res = o.get_result(true);
    return thetalike_readout<typename TT::CompactSk, TT>(res) + " image=" + TT::image(res);
  }
  static void query(const Obj& o, const Cfg&, Rng&) { if (o.has_result()) { auto res = o.get_result(false); (void)res.get_estimate(); } }
  static Arena* arena_of(const Obj& o) { return o.state_.table_.allocator_.arena; }   // private members: -fno-access-control
  static const bool HAS_MERGE_REF = false, HAS_MERGE_MOVE = false, HAS_RESET = false, HAS_ROUNDTRIP = false;
  static void merge_ref(Obj&, const Obj&, const Cfg&) {}
  static void merge_move(Obj&, Obj&&, const Cfg&) {}
  static void reset(Obj&, const Cfg&) {}
  static void roundtrip(void*, const Obj&, const Cfg&, Arena*, Rng&) {}
  static std::string mode(const Obj& o, const Cfg&) {
    if (!o.has_result()) return "universe";
    auto res = o.get_result(false);
    return res.is_empty() ? "empty" : (res.get_num_retained() == 0 ? "degenerate" : (res.is_estimation_mode() ? "estimation" : "exact"));
  }
};

// a-not-b is stateless apart from seed + allocator: "mutation" = a compute() whose result is dropped,
// read-out = compute() on fixed inputs
template<typename TT> struct TLANotBFam {
  typedef typename TT::ANotB Obj;
  typedef TCfg Cfg;
  static const bool ITEM_PAYLOAD_DOUBLE = tt_payload_double<TT>::value;
  static const char* name() { static const std::string n = std::string(TT::fam()) + "_anotb"; return n.c_str(); }
  static Cfg gen_cfg(Rng& r) { TCfg c = gen_tcfg(r); c.domain = r.coin() ? 300 : 3000; return c; }
  static std::string cfg_str(const Cfg& c) { return tcfg_str(c); }
  static void construct(void* mem, const Cfg& c, Arena* a, Rng&) { TT::make_anotb(mem, c, a); }
  typedef typename TT::UpdateSk U;
  struct Tmp {
    alignas(U) unsigned char m[sizeof(U)];
    U& u() { return *std::launder(reinterpret_cast<U*>(m)); }
    Tmp(const TCfg& c, uint8_t lg_k, Arena* a) { TT::make_update(m, c, lg_k, a); }
    ~Tmp() { u().~U(); }
  };
  static void mutate(Obj& o, const Cfg& c, Rng& r, Arena* scratch) {
    Tmp a(c, c.lg_k1, scratch), b(c, c.lg_k2, scratch);
    fill_update<TT>(a.u(), c, r); fill_update<TT>(b.u(), c, r);
    const uint64_t how = r.below(3);
    // operands live in `scratch`; the result must come from o's own instance.  Only the compute() call is bracketed.
    typedef typename TT::CompactSk CS;
    auto run = [&](bool by_move, auto&& call) { alignas(CS) unsigned char m[sizeof(CS)]; { OperandWatch w(scratch, by_move, "a-not-b-compute"); new (m) CS(call()); } CS& res = *std::launder(reinterpret_cast<CS*>(m)); (void)res.get_estimate(); res.~CS(); };
    const bool ord = r.coin();
    if (how == 0) { run(false, [&] { return o.compute(a.u(), b.u(), ord); }); xcount(std::string(name()) + ".merge_ref"); }
    else if (how == 1) { run(true, [&] { return o.compute(std::move(a.u()), b.u(), ord); }); xcount(std::string(name()) + ".merge_move"); if (r.coin()) reuse_consumed_update<TT>(a.u(), c, r, scratch); }
    else { auto ca = a.u().compact(r.coin()); auto cb = b.u().compact(r.coin()); run(true, [&] { return o.compute(std::move(ca), cb, ord); }); xcount(std::string(name()) + ".merge_move"); if (r.coin()) reuse_consumed_compact<TT>(ca, c, r, scratch); }
  }
  static std::string readout(const Obj& o, const Cfg& c) {
    Arena local(9);
    Rng fixed(c.seed ^ 0xabcdef);
    Tmp a(c, c.lg_k1, &local), b(c, c.lg_k1, &local);
    for (uint64_t i = 0; i < 150; ++i) TT::feed(a.u(), i, fixed);
    for (uint64_t i = 100; i < 250; ++i) TT::feed(b.u(), i, fixed);
    auto res = o.compute(a.u(), b.u(), true);
    return thetalike_readout<typename TT::CompactSk, TT>(res) + " image=" + TT::image(res);
  }
  static void query(const Obj&, const Cfg&, Rng&) {}
  static Arena* arena_of(const Obj& o) { return o.state_.allocator_.arena; }   // private members: -fno-access-control
  static const bool HAS_MERGE_REF = false, HAS_MERGE_MOVE = false, HAS_RESET = false, HAS_ROUNDTRIP = false;
  static void merge_ref(Obj&, const Obj&, const Cfg&) {}
  static void merge_move(Obj&, Obj&&, const Cfg&) {}
  static void reset(Obj&, const Cfg&) {}
  static void roundtrip(void*, const Obj&, const Cfg&, Arena*, Rng&) {}
  static std::string mode(const Obj&, const Cfg&) { return "stateless"; }
};

} // namespace vf
#endif
