// C19: adapter template shared by the three comparison-based quantile sketches (KLL, REQ, classic)
#ifndef VF_C19_QUANT_HPP
#define VF_C19_QUANT_HPP
#include "c19_life.hpp"
#include <sstream>

namespace vf {

// Maker<T> : how to build an empty sketch of the concrete type
//   typedef Sk;  static const char* fam();  static Sk* make(void* mem, uint16_t k, bool flag, Arena*);  static uint16_t pick_k(Rng&);
template<typename T, typename Maker> struct QuantFam {
  typedef typename Maker::Sk Obj;
  typedef ItemKind<T> IK;
  typedef track_alloc<T> A;
  struct Cfg { uint16_t k1, k2; bool flag; uint64_t domain; uint32_t max_batch; };
  static const char* name() { static const std::string n = std::string(Maker::fam()) + "_" + IK::tag(); return n.c_str(); }
  static Cfg gen_cfg(Rng& r) {
    Cfg c; c.k1 = Maker::pick_k(r); c.k2 = r.chance(0.5) ? c.k1 : Maker::pick_k(r); c.flag = r.coin();
    c.domain = r.chance(0.3) ? 50 : 100000;
    c.max_batch = r.chance(0.25) ? 2000 : (r.chance(0.5) ? 300 : 30);
    return c;
  }
  static std::string cfg_str(const Cfg& c) { return "k1=" + std::to_string(c.k1) + " k2=" + std::to_string(c.k2) + " flag=" + std::to_string(c.flag) + " domain=" + std::to_string(c.domain) + " max_batch=" + std::to_string(c.max_batch); }
  static void construct(void* mem, const Cfg& c, Arena* a, Rng& r) { Maker::make(mem, r.coin() ? c.k1 : c.k2, c.flag, a); }
  static void mutate(Obj& o, const Cfg& c, Rng& r, Arena* scratch) {
    const uint64_t n = 1 + r.below(c.max_batch);
    for (uint64_t i = 0; i < n; ++i) {
      const uint64_t id = r.below(c.domain);
      if (r.coin()) { T it = IK::make(id, scratch); o.update(it); }      // lvalue: copied in
      else o.update(IK::make(id, scratch));                               // rvalue: moved in
    }
  }
  static std::string readout(const Obj& o, const Cfg&) {
    std::string s = "n=" + std::to_string(o.get_n()) + " k=" + std::to_string(o.get_k()) + " ret=" + std::to_string(o.get_num_retained()) +
      " est=" + std::to_string(o.is_estimation_mode()) + " empty=" + std::to_string(o.is_empty());
    if (!o.is_empty()) {
      // const queries may lazily sort the unsorted part in place; do that first so that the item order
      // and the image read below are those of the settled state
      s += " q50=" + IK::show(o.get_quantile(0.5));
      s += " min=" + IK::show(o.get_min_item()) + " max=" + IK::show(o.get_max_item()) + " items=";
      const auto e = o.end();
      for (auto it = o.begin(); it != e; ++it) { auto p = *it; s += IK::show(p.first); s += ':'; s += std::to_string(p.second); s += ','; }
    }
    auto bytes = o.serialize(0, IK::serde(nullptr));
    s += " bytes=" + bytes_hex(bytes);
    return s;
  }
  static void query(const Obj& o, const Cfg& c, Rng& r, Arena* scratch = nullptr) {
    if (o.is_empty()) return;
    Arena local(7);
    Arena* a = scratch ? scratch : &local;
    {
      T probe = IK::make(r.below(c.domain), a);
      (void)o.get_rank(probe);
      (void)o.get_quantile(r.unit());
      auto v = o.get_sorted_view();
      (void)v.size();
      T sp[2] = {IK::make(c.domain / 3, a), IK::make(2 * c.domain / 3 + 1, a)};
      auto pmf = o.get_PMF(sp, 2);
      auto cdf = o.get_CDF(sp, 2);
      (void)pmf; (void)cdf;
    }
  }
  static const bool HAS_MERGE_REF = true, HAS_MERGE_MOVE = true, HAS_RESET = false, HAS_ROUNDTRIP = true;
  // x.merge(x): the sketch then summarises its stream twice
  static const bool SINGLE_INSTANCE = true;
  static Arena* arena_of(const Obj& o) { return o.get_allocator().arena; }
  static const int SELF_MERGE = SM_DOUBLES;
  static SelfMergeFacts self_merge_facts(const Obj& o, const Cfg&) {
    SelfMergeFacts f;
    double w = 0;
    const auto e = o.end();
    for (auto it = o.begin(); it != e; ++it) { auto p = *it; w += static_cast<double>(p.second); }
    f.doubles = {static_cast<double>(o.get_n()), w};
    f.same = "k=" + std::to_string(o.get_k());
    if (!o.is_empty()) f.same += " min=" + IK::show(o.get_min_item()) + " max=" + IK::show(o.get_max_item());
    return f;
  }
  static void merge_ref(Obj& d, const Obj& s, const Cfg&) { d.merge(s); }
  static void merge_move(Obj& d, Obj&& s, const Cfg&) { d.merge(std::move(s)); }
  static void reset(Obj&, const Cfg&) {}
  static void roundtrip(void* mem, const Obj& src, const Cfg&, Arena* a, Rng& r) {
    typedef typename Maker::Cmp Cmp;
    if (r.coin()) {
      const unsigned hdr = r.coin() ? 0 : 16;
      auto bytes = src.serialize(hdr, IK::serde(a));
      new (mem) Obj(Obj::deserialize(bytes.data() + hdr, bytes.size() - hdr, IK::serde(a), Cmp(), A(a)));
    } else {
      std::stringstream ss(std::ios::in | std::ios::out | std::ios::binary);
      src.serialize(ss, IK::serde(a));
      new (mem) Obj(Obj::deserialize(ss, IK::serde(a), Cmp(), A(a)));
    }
  }
  static std::string mode(const Obj& o, const Cfg&) { return Maker::mode(o); }
};

} // namespace vf
#endif
