// Independent reference implementations of MurmurHash3_x64_128 and XXH64, written from the
// published algorithm descriptions (not copied from the repo headers).  Used as the oracle for
// every hash-based sketch.  Known-answer vectors are checked by vf::refhash_selftest().
#ifndef VF_REFHASH_HPP
#define VF_REFHASH_HPP

#include <cstdint>
#include <cstring>
#include <string>
#include <cmath>

namespace vf {

struct H128 { uint64_t h1, h2; };

inline uint64_t rd64le(const uint8_t* p) { uint64_t v = 0; for (int i = 7; i >= 0; --i) v = (v << 8) | p[i]; return v; }
inline uint32_t rd32le(const uint8_t* p) { return uint32_t(p[0]) | (uint32_t(p[1]) << 8) | (uint32_t(p[2]) << 16) | (uint32_t(p[3]) << 24); }
inline uint64_t rol64(uint64_t x, unsigned r) { return (x << r) | (x >> (64 - r)); }

inline uint64_t mm3_fmix(uint64_t k) {
  k ^= k >> 33; k *= 0xff51afd7ed558ccdULL; k ^= k >> 33; k *= 0xc4ceb9fe1a85ec53ULL; k ^= k >> 33; return k;
}

inline H128 ref_murmur3_x64_128(const void* key, size_t len, uint64_t seed) {
  const uint8_t* data = static_cast<const uint8_t*>(key);
  const uint64_t c1 = 0x87c37b91114253d5ULL, c2 = 0x4cf5ad432745937fULL;
  uint64_t h1 = seed, h2 = seed;
  const size_t nblocks = len / 16;
  for (size_t i = 0; i < nblocks; ++i) {
    uint64_t k1 = rd64le(data + 16 * i), k2 = rd64le(data + 16 * i + 8);
    k1 *= c1; k1 = rol64(k1, 31); k1 *= c2; h1 ^= k1;
    h1 = rol64(h1, 27); h1 += h2; h1 = h1 * 5 + 0x52dce729;
    k2 *= c2; k2 = rol64(k2, 33); k2 *= c1; h2 ^= k2;
    h2 = rol64(h2, 31); h2 += h1; h2 = h2 * 5 + 0x38495ab5;
  }
  const uint8_t* tail = data + nblocks * 16;
  const size_t rem = len & 15;
  uint64_t k1 = 0, k2 = 0;
  for (size_t i = rem; i > 8; --i) k2 |= uint64_t(tail[i - 1]) << (8 * (i - 1 - 8));
  if (rem > 8) { k2 *= c2; k2 = rol64(k2, 33); k2 *= c1; h2 ^= k2; }
  for (size_t i = (rem > 8 ? 8 : rem); i > 0; --i) k1 |= uint64_t(tail[i - 1]) << (8 * (i - 1));
  if (rem > 0) { k1 *= c1; k1 = rol64(k1, 31); k1 *= c2; h1 ^= k1; }
  h1 ^= len; h2 ^= len;
  h1 += h2; h2 += h1;
  h1 = mm3_fmix(h1); h2 = mm3_fmix(h2);
  h1 += h2; h2 += h1;
  return H128{h1, h2};
}

inline uint64_t ref_xxh64(const void* input, size_t len, uint64_t seed) {
  const uint64_t P1 = 11400714785074694791ULL, P2 = 14029467366897019727ULL, P3 = 1609587929392839161ULL,
                 P4 = 9650029242287828579ULL, P5 = 2870177450012600261ULL;
  const uint8_t* p = static_cast<const uint8_t*>(input);
  const uint8_t* end = p + len;
  uint64_t h;
  auto round = [&](uint64_t acc, uint64_t in) { acc += in * P2; acc = rol64(acc, 31); return acc * P1; };
  auto merge = [&](uint64_t acc, uint64_t v) { v = round(0, v); acc ^= v; return acc * P1 + P4; };
  if (len >= 32) {
    uint64_t v1 = seed + P1 + P2, v2 = seed + P2, v3 = seed, v4 = seed - P1;
    while (end - p >= 32) {
      v1 = round(v1, rd64le(p)); v2 = round(v2, rd64le(p + 8)); v3 = round(v3, rd64le(p + 16)); v4 = round(v4, rd64le(p + 24));
      p += 32;
    }
    h = rol64(v1, 1) + rol64(v2, 7) + rol64(v3, 12) + rol64(v4, 18);
    h = merge(h, v1); h = merge(h, v2); h = merge(h, v3); h = merge(h, v4);
  } else {
    h = seed + P5;
  }
  h += static_cast<uint64_t>(len);
  while (end - p >= 8) { uint64_t k = round(0, rd64le(p)); h ^= k; h = rol64(h, 27) * P1 + P4; p += 8; }
  if (end - p >= 4) { h ^= uint64_t(rd32le(p)) * P1; h = rol64(h, 23) * P2 + P3; p += 4; }
  while (p < end) { h ^= uint64_t(*p) * P5; h = rol64(h, 11) * P1; ++p; }
  h ^= h >> 33; h *= P2; h ^= h >> 29; h *= P3; h ^= h >> 32;
  return h;
}

// Documented canonicalisation of update() inputs shared by Theta/Tuple/HLL/CPC:
//   integers -> sign-extended (or zero-extended for unsigned) to 64 bits, hashed as 8 LE bytes
//   float -> double; -0.0 -> +0.0; NaN -> 0x7ff8000000000000; hashed as the 8 bytes of the double
//   string -> its bytes (empty string ignored by the sketches)
inline uint64_t canon_double_bits(double d) {
  if (d == 0.0) d = 0.0;                       // -0.0 -> +0.0
  if (std::isnan(d)) return 0x7ff8000000000000ULL;
  uint64_t u; memcpy(&u, &d, 8); return u;
}
inline H128 ref_hash_u64(uint64_t v, uint64_t seed) {
  uint8_t b[8]; for (int i = 0; i < 8; ++i) b[i] = uint8_t(v >> (8 * i));
  return ref_murmur3_x64_128(b, 8, seed);
}
inline H128 ref_hash_i64(int64_t v, uint64_t seed) { return ref_hash_u64(static_cast<uint64_t>(v), seed); }
inline H128 ref_hash_double(double d, uint64_t seed) { return ref_hash_u64(canon_double_bits(d), seed); }
inline H128 ref_hash_str(const std::string& s, uint64_t seed) { return ref_murmur3_x64_128(s.data(), s.size(), seed); }

// 16-bit seed hash stored in images: low 16 bits of murmur3(seed as 8 LE bytes, seed 0).h1
inline uint16_t ref_seed_hash(uint64_t seed) { return static_cast<uint16_t>(ref_hash_u64(seed, 0).h1 & 0xffff); }

// Known-answer tests (published / widely reproduced vectors).  Returns empty string if fine.
inline std::string refhash_selftest() {
  // MurmurHash3_x64_128("", seed 0) = 0,0
  { H128 h = ref_murmur3_x64_128("", 0, 0); if (h.h1 != 0 || h.h2 != 0) return "mm3 empty"; }
  // "The quick brown fox jumps over the lazy dog", seed 0 -> e34bbc7bbc071b6c7a433ca9c49a9347 (h1=0xe34bbc7bbc071b6c, h2=0x7a433ca9c49a9347)
  { const char* s = "The quick brown fox jumps over the lazy dog"; H128 h = ref_murmur3_x64_128(s, strlen(s), 0);
    if (h.h1 != 0xe34bbc7bbc071b6cULL || h.h2 != 0x7a433ca9c49a9347ULL) return "mm3 fox"; }
  // "hello", seed 0 -> cbd8a7b341bd9b025b1e906a48ae1d19
  { H128 h = ref_murmur3_x64_128("hello", 5, 0); if (h.h1 != 0xcbd8a7b341bd9b02ULL || h.h2 != 0x5b1e906a48ae1d19ULL) return "mm3 hello"; }
  // XXH64("", 0) = ef46db3751d8e999 ; XXH64("a",0)= d24ec4f1a98c6e5b ; XXH64("abc",0)=44bc2cf5ad770999
  if (ref_xxh64("", 0, 0) != 0xef46db3751d8e999ULL) return "xxh64 empty";
  if (ref_xxh64("a", 1, 0) != 0xd24ec4f1a98c6e5bULL) return "xxh64 a";
  if (ref_xxh64("abc", 3, 0) != 0x44bc2cf5ad770999ULL) return "xxh64 abc";
  // XXH64("Nobody inspects the spammish repetition", 0) = fbcea83c8a378bf1
  { const char* s = "Nobody inspects the spammish repetition"; if (ref_xxh64(s, strlen(s), 0) != 0xfbcea83c8a378bf1ULL) return "xxh64 spam"; }
  return "";
}

} // namespace vf
#endif
