// C13 — shared machinery of the tuple-sketch monitors (included by harness/c13_*.cpp).
// A "traits" struct T describes one summary type (library types, policies, serde, model of a summary);
// Prog<T> runs random op-sequences on update_tuple_sketch objects against a shadow map
// hash -> fold of all values offered with that key; Fam<T> builds families of input sketches and checks
// union / intersection / A-not-B / filter in every physical form and order of presentation.
#ifndef VF_C13_COMMON_HPP
#define VF_C13_COMMON_HPP

#include "core.hpp"
#include "gen.hpp"
#include <theta_sketch.hpp>
#include <tuple_sketch.hpp>
#include <tuple_union.hpp>
#include <tuple_intersection.hpp>
#include <tuple_a_not_b.hpp>
#include <memory>
#include <sstream>
#include <utility>
#include <type_traits>

namespace vf { namespace c13 {
using namespace datasketches;

static const uint64_t MAXT = 0x7fffffffffffffffULL;

// operation in flight (part of the key of violations raised from inside summary objects / policies)
static const char* g_op = "idle";
struct OpScope {
  const char* prev;
  explicit OpScope(const char* o): prev(g_op) { g_op = o; }
  ~OpScope() { g_op = prev; }
};

inline uint64_t model_theta0(float p) {
  return p < 1 ? static_cast<uint64_t>(static_cast<double>(MAXT) * p) : MAXT;
}
inline uint8_t model_start_lg(uint8_t lg_k, int rf) {
  const int tgt = lg_k + 1, mn = 5;
  return static_cast<uint8_t>(tgt <= mn ? mn : (rf == 0 ? tgt : ((tgt - mn) % rf) + mn));
}

// string keys with an embedded NUL are legal keys (seed C13_25): switch them on for every C13 unit
static const bool c13_nul_keys_on = (vf::str_nul_enabled() = true);

// two-argument update: key overload chosen by the kind of the generated value
template<typename S, typename V> void apply_update2(S& sk, const Val& v, V&& val) {
  switch (v.kind) {
    case V_U64: sk.update(static_cast<uint64_t>(v.u), std::forward<V>(val)); break;
    case V_I64: sk.update(static_cast<int64_t>(v.u), std::forward<V>(val)); break;
    case V_U32: sk.update(static_cast<uint32_t>(v.u), std::forward<V>(val)); break;
    case V_I32: sk.update(static_cast<int32_t>(static_cast<uint32_t>(v.u)), std::forward<V>(val)); break;
    case V_U16: sk.update(static_cast<uint16_t>(v.u), std::forward<V>(val)); break;
    case V_I16: sk.update(static_cast<int16_t>(static_cast<uint16_t>(v.u)), std::forward<V>(val)); break;
    case V_U8:  sk.update(static_cast<uint8_t>(v.u), std::forward<V>(val)); break;
    case V_I8:  sk.update(static_cast<int8_t>(static_cast<uint8_t>(v.u)), std::forward<V>(val)); break;
    case V_F64: sk.update(v.d, std::forward<V>(val)); break;
    case V_F32: sk.update(v.f, std::forward<V>(val)); break;
    case V_STR: sk.update(v.s, std::forward<V>(val)); break;
    case V_BYTES: sk.update(static_cast<const void*>(v.s.data()), v.s.size(), std::forward<V>(val)); break;
    default: break;
  }
}

// ------------------------------------------------------------------ observed / expected sketches
template<typename M> struct Obs {
  uint64_t theta = 0; bool empty = false; bool ordered = false; uint32_t nret = 0;
  std::vector<std::pair<uint64_t, M>> e;     // sorted by hash after reading
};
template<typename M> struct Exp {
  uint64_t theta = MAXT; bool empty = true; bool check_theta = true;
  std::vector<std::pair<uint64_t, M>> e;     // sorted by hash
};

// Full read-out of any tuple sketch; structural sanity (count, duplicates, below theta, ordered claim).
template<typename T, typename SK>
Obs<typename T::M> read_sketch(const SK& s, const std::string& key, const std::string& ctx) {
  OpScope os("read-out");
  Obs<typename T::M> o;
  o.theta = s.get_theta64(); o.empty = s.is_empty(); o.ordered = s.is_ordered(); o.nret = s.get_num_retained();
  bool asc = true; uint64_t prev = 0; bool zero = false, above = false;
  for (auto it = s.begin(); it != s.end(); ++it) {
    const uint64_t h = it->first;
    if (!o.e.empty() && h <= prev) asc = false;
    prev = h;
    if (h == 0) zero = true;
    if (h >= o.theta) above = true;
    o.e.emplace_back(h, T::read(it->second));
  }
  VF_CHECK(o.nret == o.e.size(), key + "|num_retained-vs-iteration", ctx + " num_retained=" + std::to_string(o.nret) + " iterated=" + std::to_string(o.e.size()));
  VF_CHECK(!zero, key + "|zero-hash-entry", ctx);
  VF_CHECK(!above, key + "|entry-not-below-theta", ctx + " theta=" + std::to_string(o.theta));
  if (o.ordered) VF_CHECK(asc, key + "|claims-ordered-but-not-ascending", ctx);
  std::stable_sort(o.e.begin(), o.e.end(), [](const std::pair<uint64_t, typename T::M>& a, const std::pair<uint64_t, typename T::M>& b) { return a.first < b.first; });
  bool dup = false;
  for (size_t i = 1; i < o.e.size(); ++i) if (o.e[i].first == o.e[i - 1].first) dup = true;
  VF_CHECK(!dup, key + "|duplicate-key", ctx);
  if (o.empty) VF_CHECK(o.e.empty(), key + "|empty-with-entries", ctx);
  return o;
}

template<typename T>
void compare(const Obs<typename T::M>& o, const Exp<typename T::M>& x, const std::string& key, const std::string& ctx) {
  VF_CHECK(o.empty == x.empty, key + "|is_empty", ctx + " got=" + std::to_string(o.empty) + " expected=" + std::to_string(x.empty));
  if (x.check_theta) VF_CHECK(o.theta == x.theta, key + "|theta", ctx + " got=" + std::to_string(o.theta) + " expected=" + std::to_string(x.theta));
  size_t i = 0, j = 0; size_t missing = 0, extra = 0, bad = 0; std::string first;
  while (i < o.e.size() || j < x.e.size()) {
    if (j == x.e.size() || (i < o.e.size() && o.e[i].first < x.e[j].first)) {
      if (!extra++ && first.empty()) first = " first-extra=" + std::to_string(o.e[i].first);
      ++i;
    } else if (i == o.e.size() || x.e[j].first < o.e[i].first) {
      if (!missing++ && first.empty()) first = " first-missing=" + std::to_string(x.e[j].first);
      ++j;
    } else {
      if (!T::m_eq(o.e[i].second, x.e[j].second)) {
        if (!bad++) first += " key=" + std::to_string(o.e[i].first) + " got-summary=" + T::m_str(o.e[i].second) + " expected-summary=" + T::m_str(x.e[j].second);
      }
      ++i; ++j;
    }
  }
  const std::string d = ctx + " got=" + std::to_string(o.e.size()) + " expected=" + std::to_string(x.e.size()) + " theta=" + std::to_string(o.theta) + first;
  VF_CHECK(missing == 0, key + "|entry-missing", d);
  VF_CHECK(extra == 0, key + "|entry-extra", d);
  VF_CHECK(bad == 0, key + "|summary-mismatch", d + " mismatching=" + std::to_string(bad));
}

template<typename M> Exp<M> exp_of(const Obs<M>& o) { Exp<M> x; x.theta = o.theta; x.empty = o.empty; x.e = o.e; return x; }

struct FilterPred {   // applied by the library to Summary and by the model to M through T::pred
  int param;
};
template<typename T> struct LibPred {
  int param;
  bool operator()(const typename T::Summary& s) const { return T::pred(T::read(s), param); }
};

// filter(pred): exactly the satisfying entries, theta of the source, empty iff nothing kept and source not in estimation mode
template<typename T>
Exp<typename T::M> model_filter(const Obs<typename T::M>& src, int param, size_t* dropped = nullptr) {
  Exp<typename T::M> x; x.theta = src.theta;
  for (auto& kv : src.e) { if (T::pred(kv.second, param)) x.e.push_back(kv); else if (dropped) ++*dropped; }
  const bool est = src.theta < MAXT && !src.empty;
  x.empty = !est && x.e.empty();
  return x;
}

template<typename T, typename SK>
void check_filter(const SK& s, const Obs<typename T::M>& src, Rng& r, const std::string& key, const std::string& ctx) {
  const int param = static_cast<int>(r.below(4));
  size_t dropped = 0;
  Exp<typename T::M> x = model_filter<T>(src, param, &dropped);
  OpScope os("filter");
  auto f = s.filter(LibPred<T>{param});
  Obs<typename T::M> o = read_sketch<T>(f, key, ctx + " filter-param=" + std::to_string(param));
  compare<T>(o, x, key, ctx + " filter-param=" + std::to_string(param));
  count("filter");
  if (dropped > 0 && !x.e.empty()) count(std::string("filter_mixed_") + T::name());
  if (dropped > 0 && x.e.empty() && !x.empty) count("filter_all_dropped_estimation");
  if (!src.e.empty() && x.e.empty() && x.empty) count("filter_all_dropped_exact");
}

// ================================================================== part A: update-sketch programs
template<typename T> struct UModel {
  uint8_t lg_k; int rf; float p; uint64_t seed; uint64_t theta0;
  typename T::Cfg cfg;                                            // state of the sketch's update policy (travels with assignment)
  std::map<uint64_t, std::pair<typename T::M, uint32_t>> fold;   // reference hash -> (fold of all values offered, #offers)
  bool nonempty = false;
  uint64_t last_theta = 0; bool last_valid = false;
};

template<typename T> struct Live {
  std::unique_ptr<typename T::UpdateSketch> sk;
  std::unique_ptr<update_theta_sketch> th;     // a Theta sketch of the same configuration fed the same keys
  UModel<T> m;
};

template<typename T> struct Prog {
  using M = typename T::M;
  using Cfg = typename T::Cfg;

  static std::string ctx_of(const UModel<T>& m, const char* after) {
    return std::string("after ") + after + " " + T::cfg_str(m.cfg) + " lg_k=" + std::to_string(m.lg_k) + " rf=" + std::to_string(m.rf) + " p=" + str(m.p) +
      " seed=" + std::to_string(m.seed) + " distinct-keys=" + std::to_string(m.fold.size());
  }

  static Obs<M> observe(Live<T>& L, const Cfg&, Rng& r, const char* after, bool deep) {
    const typename T::UpdateSketch& s = *L.sk;
    UModel<T>& m = L.m;
    const Cfg& cfg = m.cfg;
    const std::string N = T::name();
    const std::string ctx = ctx_of(m, after);
    const uint64_t k = 1ULL << m.lg_k;
    Obs<M> o = read_sketch<T>(s, N + "|update", ctx);
    VF_CHECK(o.empty == !m.nonempty, N + "|update|is_empty", ctx);
    uint64_t theta;
    if (!m.nonempty) {
      VF_CHECK(o.theta == MAXT, N + "|update|theta-while-empty", ctx + " theta=" + std::to_string(o.theta));
      theta = m.theta0;
    } else {
      theta = o.theta;
      VF_CHECK(theta == m.theta0 || m.fold.count(theta), N + "|update|theta-not-start-nor-seen-hash", ctx + " theta=" + std::to_string(theta));
      VF_CHECK(theta <= m.theta0, N + "|update|theta-above-start", ctx);
      if (m.last_valid) VF_CHECK(theta <= m.last_theta, N + "|update|theta-increased", ctx + " was=" + std::to_string(m.last_theta) + " now=" + std::to_string(theta));
      m.last_theta = theta; m.last_valid = true;
    }
    Exp<M> x; x.theta = o.theta; x.empty = !m.nonempty; x.check_theta = false;
    for (auto& kv : m.fold) { if (kv.first >= theta) break; if (kv.first != 0) x.e.emplace_back(kv.first, kv.second.first); }
    compare<T>(o, x, N + "|update", ctx);
    if (theta < m.theta0) VF_CHECK(o.e.size() >= k, N + "|update|theta-lowered-with-fewer-than-k", ctx + " retained=" + std::to_string(o.e.size()));
    VF_CHECK(s.get_lg_k() == m.lg_k, N + "|update|lg_k", ctx);
    VF_CHECK(s.get_seed_hash() == ref_seed_hash(m.seed), N + "|update|seed-hash", ctx);
    T::check_result_cfg(s, cfg, N + "|update", ctx);
    // the same keys as a Theta sketch of the same configuration fed the same key stream
    {
      const update_theta_sketch& t = *L.th;
      VF_CHECK(t.get_theta64() == o.theta, N + "|update|theta-differs-from-theta-sketch", ctx + " tuple=" + std::to_string(o.theta) + " theta-sketch=" + std::to_string(t.get_theta64()));
      VF_CHECK(t.is_empty() == o.empty, N + "|update|is_empty-differs-from-theta-sketch", ctx);
      std::vector<uint64_t> tk; for (uint64_t h : t) tk.push_back(h);
      std::sort(tk.begin(), tk.end());
      bool same = tk.size() == o.e.size();
      for (size_t i = 0; same && i < tk.size(); ++i) same = tk[i] == o.e[i].first;
      VF_CHECK(same, N + "|update|key-set-differs-from-theta-sketch", ctx + " tuple=" + std::to_string(o.e.size()) + " theta-sketch=" + std::to_string(tk.size()));
    }
    if (deep) {
      count("deep_observations");
      for (int ord = 0; ord < 2; ++ord) {
        OpScope os("compact");
        auto c = (ord == 1 && r.coin()) ? T::compact_ctor(s, true) : s.compact(ord == 1);
        Obs<M> oc = read_sketch<T>(c, N + "|compact", ctx + " ordered=" + std::to_string(ord));
        if (ord == 1) VF_CHECK(oc.ordered, N + "|compact|ordered-requested-not-flagged", ctx);
        compare<T>(oc, exp_of(o), N + "|compact", ctx + " ordered=" + std::to_string(ord));
        VF_CHECK(c.get_seed_hash() == ref_seed_hash(m.seed), N + "|compact|seed-hash", ctx);
        T::check_result_cfg(c, cfg, N + "|compact", ctx);
        if (ord == 0 || r.chance(0.3)) check_filter<T>(c, oc, r, N + "|filter-compact", ctx);
        if (r.chance(0.35)) {
          OpScope os2("serde");
          auto d = r.coin() ? T::deser_bytes(T::ser_bytes(c), m.seed, cfg) : T::deser_stream(T::ser_stream(c), m.seed, cfg);
          Obs<M> od = read_sketch<T>(d, N + "|deserialized", ctx);
          compare<T>(od, exp_of(o), N + "|deserialized", ctx);
          count("roundtrips");
        }
        if (ord == 1 && r.chance(0.3)) {   // copies / moves of a compact sketch keep the content; moved-from stays destructible
          auto c2 = c;
          auto c3 = std::move(c);
          Obs<M> o3 = read_sketch<T>(c3, N + "|compact-moved", ctx);
          compare<T>(o3, exp_of(o), N + "|compact-moved", ctx);
          c = std::move(c2);
          Obs<M> o4 = read_sketch<T>(c, N + "|compact-move-assigned", ctx);
          compare<T>(o4, exp_of(o), N + "|compact-move-assigned", ctx);
          count("compact_moves");
        }
      }
      check_filter<T>(s, o, r, N + "|filter-update", ctx);
    }
    sig(mix64(mix64(o.theta, o.e.size()), mix64(m.lg_k * 131 + T::id(), m.fold.size())));
    return o;
  }

  static void run(uint64_t idx, Rng& r) {
    const bool TH = G().thorough();
    const std::string N = T::name();
    const Cfg cfg = T::gen_cfg(r);
    UModel<T> m;
    const bool big = TH && r.chance(0.02);
    m.lg_k = static_cast<uint8_t>(big ? r.range(12, 14) : r.range(5, TH ? 11 : 9));
    m.rf = static_cast<int>(r.below(4));
    static const float ps[] = {1.0f, 1.0f, 1.0f, 1.0f, 0.5f, 0.1f, 1e-3f, 1e-6f, 0.999f};
    m.p = ps[r.below(9)];
    m.seed = r.chance(0.6) ? DEFAULT_SEED : r.next();
    m.theta0 = model_theta0(m.p);
    m.cfg = cfg;
    const uint64_t k = 1ULL << m.lg_k;
    const uint64_t nops_max = big ? 5 * k : (r.chance(0.4) ? 6 * k : k + k / 2);
    const uint64_t nops = r.below(std::min<uint64_t>(nops_max, TH ? 90000 : 9000) + 1);
    const uint64_t dsel = r.below(10);
    const uint64_t domain = dsel < 2 ? std::max<uint64_t>(1, nops / 16) : dsel < 5 ? std::max<uint64_t>(1, nops / 3) : dsel < 8 ? nops * 4 + 1 : (1ULL << 40);
    const int fixed_kind = r.chance(0.5) ? -1 : static_cast<int>(r.below(V_NKINDS));
    describe("program type=" + N + " " + T::cfg_str(cfg) + " lg_k=" + std::to_string(m.lg_k) + " rf=" + std::to_string(m.rf) + " p=" + str(m.p) +
             " seed=" + std::to_string(m.seed) + " nops=" + std::to_string(nops) + " domain=" + std::to_string(domain) + " kind=" + std::to_string(fixed_kind));
    count(std::string("programs_") + T::name());

    std::vector<Live<T>> pool;
    pool.reserve(8);
    auto make_live = [&](const UModel<T>& mm) {
      Live<T> L; L.m = mm;
      L.sk.reset(new typename T::UpdateSketch(T::make_update(mm.cfg, mm.lg_k, mm.rf, mm.p, mm.seed)));
      L.th.reset(new update_theta_sketch(update_theta_sketch::builder().set_lg_k(mm.lg_k).set_resize_factor(static_cast<theta_constants::resize_factor>(mm.rf))
        .set_p(mm.p).set_seed(mm.seed).build()));
      return L;
    };
    // a sketch whose configuration AND update-policy state differ from the first one's
    auto other_model = [&]() {
      UModel<T> o;
      o.lg_k = static_cast<uint8_t>(r.range(5, 8)); o.rf = static_cast<int>(r.below(4));
      o.p = ps[r.below(9)]; o.seed = r.chance(0.5) ? m.seed : r.next(); o.theta0 = model_theta0(o.p);
      o.cfg = T::gen_cfg(r);
      return o;
    };
    auto one_update = [&](Live<T>& L, const Val& v) -> typename T::UV {
      typename T::UV uv = T::gen_uv(r, L.m.cfg);
      {
        OpScope os("update");
        T::do_update(*L.sk, v, uv, r, L.m.cfg);
      }
      apply_update(*L.th, v);
      if (v.kind == V_STR && v.s.find('\0') != std::string::npos) count("string_key_with_embedded_nul");
      if (!v.ignored()) {
        const uint64_t h = v.ref_hash(L.m.seed).h1 >> 1;
        L.m.nonempty = true;
        auto it = L.m.fold.find(h);
        if (it == L.m.fold.end()) it = L.m.fold.emplace(h, std::make_pair(T::m_create(L.m.cfg), 0u)).first;
        T::m_update(it->second.first, uv);
        it->second.second++;
      } else count("ignored_empty_string");
      return uv;
    };
    auto note_assign = [&](const UModel<T>& dst, const UModel<T>& src, const char* how) {
      if (dst.lg_k != src.lg_k || dst.p != src.p || dst.seed != src.seed || dst.rf != src.rf) count(std::string(how) + "_between_different_configurations");
      if (T::cfg_str(dst.cfg) != T::cfg_str(src.cfg)) count(std::string(how) + "_between_different_policy_state_" + T::name());
    };
    pool.push_back(make_live(m));
    observe(pool[0], cfg, r, "construction", true);
    const uint64_t obs_every = nops <= 100 ? 1 : (nops <= 3000 ? 1 + r.below(60) : 1 + r.below(nops / 12 + 1));
    uint64_t nobs = 0;
    std::string sample_ops;
    for (uint64_t i = 0; i < nops; ++i) {
      const size_t li = r.below(pool.size());
      Live<T>& L = pool[li];
      bool pool_changed = false;
      const uint64_t op = r.below(1000);
      const char* what = "update";
      if (op < 957) {
        Val v = gen_val(r, domain, fixed_kind);
        typename T::UV uv = one_update(L, v);
        if (want_sample() && i < 5) sample_ops += v.to_string() + "=>" + T::uv_str(uv) + ";";
      } else if (op < 962) {
        if (pool.size() < 3) {   // a fresh sketch with another configuration and another policy state joins the pool
          pool.push_back(make_live(other_model())); what = "spawn"; count("spawn_different_configuration");
          observe(pool.back(), cfg, r, what, false);
          pool_changed = true;
        }
      } else if (op < 970) {
        OpScope os("trim");
        const uint64_t kk = 1ULL << L.m.lg_k;
        const uint32_t before = L.sk->get_num_retained();
        L.sk->trim(); L.th->trim(); what = "trim"; count("trim");
        if (before > kk) count("trim_effective");
        VF_CHECK(L.sk->get_num_retained() <= kk, N + "|trim|more-than-k-after-trim", "retained=" + std::to_string(L.sk->get_num_retained()));
        observe(L, cfg, r, what, false);
      } else if (op < 975) {
        OpScope os("reset");
        L.sk->reset(); L.th->reset(); what = "reset"; count("reset");
        L.m.fold.clear(); L.m.nonempty = false; L.m.last_valid = false;
        observe(L, cfg, r, what, false);
      } else if (op < 983) {
        if (pool.size() < 3) {
          OpScope os("copy-ctor");
          Live<T> C; C.m = L.m; C.sk.reset(new typename T::UpdateSketch(*L.sk)); C.th.reset(new update_theta_sketch(*L.th));
          pool.push_back(std::move(C)); what = "copy-ctor"; count("copy");
          observe(pool.back(), cfg, r, what, false);
        }
      } else if (op < 987) {
        OpScope os("move-ctor");
        typename T::UpdateSketch tmp(std::move(*L.sk));
        L.sk.reset(new typename T::UpdateSketch(std::move(tmp)));    // both moved-from objects are destroyed here
        what = "move-ctor"; count("move_ctor");
      } else if (op < 993) {
        if (pool.size() >= 2) {
          OpScope os("copy-assign");
          size_t a = r.below(pool.size()), b = r.chance(0.15) ? a : r.below(pool.size());
          *pool[a].sk = *pool[b].sk; *pool[a].th = *pool[b].th;
          if (a != b) { note_assign(pool[a].m, pool[b].m, "copy_assign"); pool[a].m = pool[b].m; count("copy_assign"); } else count("self_assign");
          observe(pool[a], cfg, r, "copy-assign", false);
          if (a != b) observe(pool[b], cfg, r, "copy-assign-source", false);
        }
      } else {
        if (pool.size() >= 2) {
          size_t a = r.below(pool.size()), b = r.below(pool.size());
          if (a != b) {
            OpScope os("move-assign");
            note_assign(pool[a].m, pool[b].m, "move_assign");
            *pool[a].sk = std::move(*pool[b].sk); *pool[a].th = std::move(*pool[b].th); pool[a].m = pool[b].m; count("move_assign");
            observe(pool[a], cfg, r, "move-assign", false);
            pool.erase(pool.begin() + static_cast<long>(b));   // moved-from must be destructible
            pool_changed = true;
          }
        }
      }
      if (!pool_changed && ((i % obs_every) == 0 || i + 1 == nops)) { observe(L, cfg, r, what, (nobs++ % 5) == 0); }
    }
    // Epilogue of every program: a sketch B of another configuration and policy state is assigned onto pool[0]
    // (copy or move); the target must take over B's state INCLUDING its policy: later values are folded with it.
    {
      Live<T> B = make_live(other_model());
      const uint64_t nb = r.below(40), na = 1 + r.below(40);
      for (uint64_t i = 0; i < nb; ++i) one_update(B, gen_val(r, 64, fixed_kind));
      Live<T>& A = pool[0];
      const bool mv = r.coin();
      note_assign(A.m, B.m, mv ? "move_assign" : "copy_assign");
      {
        OpScope os(mv ? "move-assign" : "copy-assign");
        if (mv) { *A.sk = std::move(*B.sk); *A.th = std::move(*B.th); count("move_assign"); }
        else { *A.sk = *B.sk; *A.th = *B.th; count("copy_assign"); }
      }
      A.m = B.m;
      observe(A, cfg, r, mv ? "move-assign(epilogue)" : "copy-assign(epilogue)", false);
      for (uint64_t i = 0; i < na; ++i) one_update(A, gen_val(r, 64, fixed_kind));
      observe(A, cfg, r, "updates-after-assignment", true);
      if (!mv) {   // the source of a copy-assignment is untouched and independent of the target's later updates
        observe(B, cfg, r, "copy-assign-source(epilogue)", false);
        for (uint64_t i = 0; i < 5; ++i) one_update(B, gen_val(r, 64, fixed_kind));
        observe(B, cfg, r, "copy-assign-source-updated", false);
        observe(A, cfg, r, "target-after-source-updated", false);
      }
      count("assignment_epilogues");
    }
    for (auto& L : pool) {
      Obs<M> o = observe(L, cfg, r, "end", true);
      bool multi = false;
      for (auto& kv : o.e) { auto it = L.m.fold.find(kv.first); if (it != L.m.fold.end() && it->second.second >= 2) { multi = true; break; } }
      if (L.m.nonempty && o.theta < L.m.theta0) {
        count(std::string("rebuilt_") + T::name());
        if (multi) count(std::string("rebuilt_multi_value_") + T::name());
      }
      const uint8_t start = model_start_lg(L.m.lg_k, L.m.rf);
      if (start < L.m.lg_k + 1 && o.e.size() > (1ULL << start) / 2 && multi) count(std::string("resized_multi_value_") + T::name());
    }
    if (want_sample()) sample("{\"config\":" + jstr(G().cur_desc) + ",\"first_ops\":" + jstr(sample_ops) + ",\"final_retained\":" + std::to_string(pool[0].sk->get_num_retained()) + "}");
    (void)idx;
  }
};

// ================================================================== part B: set-operation families
template<typename T> struct Input {
  bool is_theta = false;                                 // a Theta sketch, used through compact_tuple_sketch(theta, summary)
  std::unique_ptr<typename T::UpdateSketch> us;
  std::unique_ptr<update_theta_sketch> ts;
  typename T::M def;                                     // summary given to every key of a Theta operand
  uint8_t lg_k = 0; float p = 1;
  // verified observed content
  uint64_t theta = MAXT; bool empty = true;
  std::vector<std::pair<uint64_t, typename T::M>> e;     // sorted by hash
};

enum { F_UPDATE_CONST, F_UPDATE_RVALUE, F_COMPACT_ORD, F_COMPACT_UNORD, F_COMPACT_RVALUE, F_DESER_BYTES, F_DESER_STREAM_RVALUE, F_COMPACT_CTOR_CONST, F_NFORMS };
inline const char* form_name(int f) {
  static const char* n[] = {"update", "update&&", "compact-ordered", "compact-unordered", "compact&&", "deser-bytes", "deser-stream&&", "compact-ctor-const"};
  return n[f];
}

// One input materialised in a physical form; `kind` says how it is handed to the operation (const lvalue, lvalue, rvalue).
// Objects that were moved from are destroyed with the holder ("moved-from sources remain destructible").
template<typename T> struct Held {
  using US = typename T::UpdateSketch; using CS = typename T::CompactSketch; using BC = typename T::BaseCompact;
  enum Kind { K_US_CONST, K_US_RVALUE, K_CS_LVALUE, K_CS_CONST, K_CS_RVALUE, K_BC_LVALUE, K_BC_CONST, K_BC_RVALUE } kind = K_US_CONST;
  const US* us_ref = nullptr;
  std::unique_ptr<US> us; std::unique_ptr<CS> cs; std::unique_ptr<BC> bc;
  bool rvalue() const { return kind == K_US_RVALUE || kind == K_CS_RVALUE || kind == K_BC_RVALUE; }
};

template<typename T>
Held<T> make_form(const Input<T>& in, int form, bool ord, uint64_t seed, const typename T::Cfg& cfg) {
  using H = Held<T>; using US = typename T::UpdateSketch; using CS = typename T::CompactSketch; using BC = typename T::BaseCompact;
  H h;
  if (in.is_theta) {
    const typename T::Summary summary = T::make_summary(in.def, cfg);
    switch (form % 4) {
      case 0: h.bc.reset(new BC(*in.ts, summary, ord)); h.kind = H::K_BC_LVALUE; count("form_theta_update_lvalue"); break;
      case 1: h.bc.reset(new BC(*in.ts, summary, ord)); h.kind = H::K_BC_RVALUE; count("form_theta_update_rvalue"); break;
      case 2: { compact_theta_sketch ct = in.ts->compact((form / 4) % 2 == 0); h.bc.reset(new BC(ct, summary, ord)); h.kind = H::K_BC_CONST; count("form_theta_compact_lvalue"); break; }
      default: { compact_theta_sketch ct = in.ts->compact((form / 4) % 2 == 0); h.bc.reset(new BC(ct, summary, ord)); h.kind = H::K_BC_RVALUE; count("form_theta_compact_rvalue"); break; }
    }
    return h;
  }
  switch (form) {
    case F_UPDATE_CONST: h.us_ref = in.us.get(); h.kind = H::K_US_CONST; break;
    case F_UPDATE_RVALUE: h.us.reset(new US(*in.us)); h.kind = H::K_US_RVALUE; break;
    case F_COMPACT_ORD: h.cs.reset(new CS(in.us->compact(true))); h.kind = H::K_CS_LVALUE; break;
    case F_COMPACT_UNORD: h.cs.reset(new CS(in.us->compact(false))); h.kind = H::K_CS_LVALUE; break;
    case F_COMPACT_RVALUE: h.cs.reset(new CS(in.us->compact(ord))); h.kind = H::K_CS_RVALUE; break;
    case F_DESER_BYTES: h.cs.reset(new CS(T::deser_bytes(T::ser_bytes(in.us->compact(ord)), seed, cfg))); h.kind = H::K_CS_CONST; break;
    case F_DESER_STREAM_RVALUE: h.cs.reset(new CS(T::deser_stream(T::ser_stream(in.us->compact(ord)), seed, cfg))); h.kind = H::K_CS_RVALUE; break;
    default: h.cs.reset(new CS(T::compact_ctor(*in.us, ord))); h.kind = H::K_CS_CONST; break;
  }
  count(std::string("form_") + form_name(form));
  return h;
}

template<typename T, typename F> void dispatch(Held<T>& h, F&& f) {
  using H = Held<T>;
  switch (h.kind) {
    case H::K_US_CONST: f(*h.us_ref); break;
    case H::K_US_RVALUE: f(std::move(*h.us)); break;
    case H::K_CS_LVALUE: f(*h.cs); break;
    case H::K_CS_CONST: f(static_cast<const typename T::CompactSketch&>(*h.cs)); break;
    case H::K_CS_RVALUE: f(std::move(*h.cs)); break;
    case H::K_BC_LVALUE: f(*h.bc); break;
    case H::K_BC_CONST: f(static_cast<const typename T::BaseCompact&>(*h.bc)); break;
    default: f(std::move(*h.bc)); break;
  }
}
// second operand of A-not-B is always taken by const reference
template<typename T, typename F> void dispatch_const(const Held<T>& h, F&& f) {
  if (h.us_ref) f(*h.us_ref); else if (h.us) f(static_cast<const typename T::UpdateSketch&>(*h.us));
  else if (h.cs) f(static_cast<const typename T::CompactSketch&>(*h.cs)); else f(static_cast<const typename T::BaseCompact&>(*h.bc));
}

// an operand handed over as an lvalue must come back unchanged
template<typename T>
void check_operand_intact(const Held<T>& h, const Input<T>& in, const std::string& key, const std::string& ctx) {
  if (h.rvalue()) return;
  dispatch_const<T>(h, [&](const auto& sk) {
    Obs<typename T::M> o = read_sketch<T>(sk, key, ctx);
    Exp<typename T::M> x; x.theta = in.theta; x.empty = in.empty; x.e = in.e;
    compare<T>(o, x, key, ctx);
  });
  count("lvalue_operands_rechecked");
}

template<typename T> struct Fam {
  using M = typename T::M;
  using Cfg = typename T::Cfg;
  using In = Input<T>;

  static Exp<M> model_union(const std::vector<const In*>& ins, uint64_t theta0_u, uint64_t k, bool* trimmed, size_t* before_trim) {
    Exp<M> x; x.theta = theta0_u; x.empty = true;
    for (const In* in : ins) if (!in->empty) { x.empty = false; x.theta = std::min(x.theta, in->theta); }
    std::map<uint64_t, M> acc;
    for (const In* in : ins) {
      if (in->empty) continue;
      for (auto& kv : in->e) {
        if (kv.first >= x.theta) break;
        auto it = acc.find(kv.first);
        if (it == acc.end()) acc.emplace(kv.first, kv.second); else T::m_merge(it->second, kv.second);
      }
    }
    if (before_trim) *before_trim = acc.size();
    if (trimmed) *trimmed = false;
    for (auto& kv : acc) {
      if (x.e.size() == k) { x.theta = kv.first; if (trimmed) *trimmed = true; break; }
      x.e.push_back(kv);
    }
    if (x.empty) x.check_theta = false;   // theta of an empty union result is not part of this property
    return x;
  }

  // Intersection of the inputs presented so far (order independent, as stated for the Theta intersection in C02):
  // any empty input => empty result; otherwise theta = min theta_i, entries = common keys below theta with the
  // summaries folded in presentation order; an exact-mode result without entries is the empty set.
  struct InterModel {
    bool valid = false, any_empty = false; uint64_t theta = MAXT; std::map<uint64_t, M> acc;
    void update(const In& in) {
      if (in.empty) { any_empty = true; acc.clear(); valid = true; return; }
      theta = std::min(theta, in.theta);
      if (!valid) {
        valid = true;
        for (auto& kv : in.e) acc.emplace(kv.first, kv.second);
      } else {
        std::map<uint64_t, M> next;
        for (auto& kv : in.e) {
          auto it = acc.find(kv.first);
          if (it != acc.end()) { M mm = it->second; T::m_merge(mm, kv.second); next.emplace(kv.first, std::move(mm)); }
        }
        acc.swap(next);
      }
    }
    Exp<M> result() const {
      Exp<M> x;
      if (any_empty) { x.empty = true; x.theta = MAXT; return x; }
      x.theta = theta;
      for (auto& kv : acc) { if (kv.first >= theta) break; x.e.push_back(kv); }
      x.empty = x.e.empty() && theta == MAXT;
      return x;
    }
  };

  static Exp<M> model_a_not_b(const In& a, const In& b) {
    Exp<M> x;
    if (a.empty) { x.empty = true; x.theta = MAXT; return x; }
    x.theta = std::min(a.theta, b.empty ? MAXT : b.theta);
    size_t j = 0;
    for (auto& kv : a.e) {
      if (kv.first >= x.theta) break;
      while (j < b.e.size() && b.e[j].first < kv.first) ++j;
      if (j < b.e.size() && b.e[j].first == kv.first) continue;
      x.e.push_back(kv);
    }
    x.empty = x.e.empty() && x.theta == MAXT;
    return x;
  }

  static int pick_form(Rng& r) { return static_cast<int>(r.below(F_NFORMS)); }

  static void run(uint64_t idx, Rng& r) {
    const bool TH = G().thorough();
    const std::string N = T::name();
    const Cfg cfg = T::gen_cfg(r);
    const uint64_t seed = r.chance(0.7) ? DEFAULT_SEED : r.next();
    const size_t n = static_cast<size_t>(r.range(2, TH && r.chance(0.2) ? 5 : 4));
    static const uint64_t sizes_q[] = {0, 1, 3, 20, 100, 400, 1200, 2500};
    static const uint64_t sizes_t[] = {0, 1, 3, 20, 100, 400, 1200, 2500, 6000, 12000};
    const uint64_t usize = TH ? sizes_t[r.below(10)] : sizes_q[r.below(8)];
    const int kind = r.chance(0.6) ? V_U64 : (r.chance(0.5) ? -1 : static_cast<int>(r.below(V_NKINDS)));
    describe("family type=" + N + " " + T::cfg_str(cfg) + " seed=" + std::to_string(seed) + " inputs=" + std::to_string(n) + " universe=" + std::to_string(usize) + " kind=" + std::to_string(kind));
    count(std::string("families_") + T::name());

    // universe of keys with their reference hashes
    std::vector<Val> uni; std::vector<uint64_t> uh;
    for (uint64_t i = 0; i < usize; ++i) { Val v = gen_val(r, 1ULL << 40, kind); uni.push_back(v); uh.push_back(v.ignored() ? 0 : v.ref_hash(seed).h1 >> 1); }

    // ---- inputs
    std::vector<In> ins(n);
    static const float ps[] = {1.0f, 1.0f, 1.0f, 1.0f, 1.0f, 0.5f, 0.1f, 1e-6f};
    std::string idesc;
    for (size_t i = 0; i < n; ++i) {
      In& in = ins[i];
      in.lg_k = static_cast<uint8_t>(r.range(5, TH ? 11 : 9));
      in.p = ps[r.below(8)];
      const int rf = static_cast<int>(r.below(4));
      const int cls = r.chance(0.08) ? 0 : (r.chance(0.2) ? 2 : 1);    // 0 never updated, 2 Theta sketch, 1 tuple sketch
      in.is_theta = cls == 2;
      static const double qs[] = {0.05, 0.3, 0.6, 0.9, 1.0};
      const double q = qs[r.below(5)];
      std::map<uint64_t, M> fold;
      bool nonempty = false;
      if (in.is_theta) {
        in.ts.reset(new update_theta_sketch(update_theta_sketch::builder().set_lg_k(in.lg_k).set_resize_factor(static_cast<theta_constants::resize_factor>(rf))
          .set_p(in.p).set_seed(seed).build()));
        in.def = T::m_create(cfg);
        const int nv = static_cast<int>(r.range(1, 2));
        for (int j = 0; j < nv; ++j) T::m_update(in.def, T::gen_uv(r, cfg));
      } else {
        in.us.reset(new typename T::UpdateSketch(T::make_update(cfg, in.lg_k, rf, in.p, seed)));
      }
      if (cls != 0) {
        std::vector<uint32_t> ops;
        for (uint32_t u = 0; u < usize; ++u) if (r.chance(q)) { const uint64_t reps = 1 + (r.chance(0.4) ? r.below(3) : 0); for (uint64_t t = 0; t < reps; ++t) ops.push_back(u); }
        r.shuffle(ops);
        OpScope os("update");
        for (uint32_t u : ops) {
          if (in.is_theta) { apply_update(*in.ts, uni[u]); if (uh[u]) { fold.emplace(uh[u], in.def); nonempty = true; } }
          else {
            typename T::UV uv = T::gen_uv(r, cfg);
            T::do_update(*in.us, uni[u], uv, r, cfg);
            if (!uni[u].ignored()) {
              nonempty = true;
              auto it = fold.find(uh[u]);
              if (it == fold.end()) it = fold.emplace(uh[u], T::m_create(cfg)).first;
              T::m_update(it->second, uv);
            }
          }
        }
      }
      // verify the input against its model and remember the observed (theta, entries, empty)
      const std::string ctx = "input#" + std::to_string(i) + " lg_k=" + std::to_string(in.lg_k) + " p=" + str(in.p) + " theta-operand=" + std::to_string(in.is_theta);
      const uint64_t theta0 = model_theta0(in.p);
      Obs<M> o;
      if (in.is_theta) {
        o.theta = in.ts->get_theta64(); o.empty = in.ts->is_empty();
        for (uint64_t h : *in.ts) o.e.emplace_back(h, in.def);
        std::sort(o.e.begin(), o.e.end(), [](const std::pair<uint64_t, M>& a, const std::pair<uint64_t, M>& b) { return a.first < b.first; });
      } else {
        o = read_sketch<T>(*in.us, N + "|input", ctx);
      }
      Exp<M> x; x.empty = !nonempty; x.theta = o.theta; x.check_theta = false;
      const uint64_t th_eff = nonempty ? o.theta : theta0;
      if (nonempty) VF_CHECK(o.theta <= theta0 && (o.theta == theta0 || fold.count(o.theta)), N + "|input|theta-not-start-nor-seen-hash", ctx + " theta=" + std::to_string(o.theta));
      else VF_CHECK(o.theta == MAXT, N + "|input|theta-while-empty", ctx);
      for (auto& kv : fold) { if (kv.first >= th_eff) break; x.e.push_back(kv); }
      compare<T>(o, x, N + "|input", ctx);
      in.theta = o.theta; in.empty = o.empty; in.e = o.e;
      idesc += (i ? "," : "") + std::string(in.is_theta ? "theta" : (cls == 0 ? "never-updated" : "tuple")) + ":lg_k" + std::to_string(in.lg_k) + ":p" + str(in.p) + ":ret" + std::to_string(in.e.size()) + (in.theta < MAXT && !in.empty ? ":est" : "");
      if (!in.empty && in.e.empty()) count("input_nonempty_zero_retained");
      if (in.empty) count("input_empty");
      if (!in.empty && in.theta < theta0) count("input_rebuilt");
      if (!in.is_theta && !in.empty && r.chance(0.3)) check_filter<T>(*in.us, o, r, N + "|filter-update", ctx);
    }
    describe(G().cur_desc + " [" + idesc + "]");

    // ---- permutations of presentation
    std::vector<std::vector<size_t>> perms;
    {
      std::vector<size_t> p(n); for (size_t i = 0; i < n; ++i) p[i] = i;
      if (n <= 3) { do perms.push_back(p); while (std::next_permutation(p.begin(), p.end())); }
      else { perms.push_back(p); for (int j = 0; j < 4; ++j) { r.shuffle(p); perms.push_back(p); } }
    }

    // ---- union
    {
      const uint8_t lg_u = static_cast<uint8_t>(r.range(5, TH ? 11 : 9));
      const float p_u = r.chance(0.8) ? 1.0f : (r.coin() ? 0.5f : 0.1f);
      const uint64_t k_u = 1ULL << lg_u;
      std::vector<uint64_t> first_keys; bool have_first = false;
      for (auto& perm : perms) {
        const int rf_u = static_cast<int>(r.below(4));
        auto u = T::make_union(cfg, lg_u, rf_u, p_u, seed);
        const bool reuse = r.chance(0.1);
        for (int round = 0; round < (reuse ? 2 : 1); ++round) {
          std::vector<const In*> pres;
          std::string fdesc;
          for (size_t j = 0; j < perm.size(); ++j) {
            const In& in = ins[perm[j]];
            const int form = pick_form(r); const bool ord = r.coin();
            fdesc += std::string(j ? "," : "") + "#" + std::to_string(perm[j]) + ":" + (in.is_theta ? "theta" : form_name(form));
            {
              OpScope os("union");
              Held<T> hd = make_form<T>(in, form, ord, seed, cfg);
              dispatch<T>(hd, [&](auto&& sk) { u.update(std::forward<decltype(sk)>(sk)); });
              if (hd.rvalue()) count("rvalue_operand_union");
              else if (r.chance(0.25)) check_operand_intact<T>(hd, in, N + "|union-lvalue-operand", "after union.update of input#" + std::to_string(perm[j]) + " as " + form_name(form));
            }
            if (in.is_theta) count("theta_operand_union");
            pres.push_back(&in);
            if (j + 1 == perm.size() || r.chance(0.4)) {
              const bool ro = r.coin();
              bool trimmed = false; size_t before = 0;
              Exp<M> x = model_union(pres, model_theta0(p_u), k_u, &trimmed, &before);
              const std::string ctx = "union lg_k=" + std::to_string(lg_u) + " p=" + str(p_u) + " rf=" + std::to_string(rf_u) + " presented=[" + fdesc + "] ordered=" + std::to_string(ro) + " round=" + std::to_string(round);
              OpScope os("union");
              auto res = u.get_result(ro);
              Obs<M> o = read_sketch<T>(res, N + "|union", ctx);
              if (ro) VF_CHECK(o.ordered, N + "|union|ordered-requested-not-flagged", ctx);
              compare<T>(o, x, N + "|union", ctx);
              VF_CHECK(res.get_seed_hash() == ref_seed_hash(seed), N + "|union|seed-hash", ctx);
              T::check_result_cfg(res, cfg, N + "|union", ctx);
              count("union_results");
              if (trimmed) count(std::string("union_trimmed_") + T::name());
              if (before > (k_u * 2 * 15) / 16) count(std::string("union_rebuilt_in_table_") + T::name());
              bool multi = false;
              if (pres.size() >= 2) for (auto& kv : o.e) { int holders = 0; for (const In* q : pres) { auto it = std::lower_bound(q->e.begin(), q->e.end(), kv.first, [](const std::pair<uint64_t, M>& a, uint64_t b) { return a.first < b; }); if (it != q->e.end() && it->first == kv.first) ++holders; } if (holders >= 2) { multi = true; break; } }
              if (multi) count(std::string("union_merged_summaries_") + T::name());
              if (j + 1 == perm.size()) {
                std::vector<uint64_t> keys; for (auto& kv : o.e) keys.push_back(kv.first);
                if (!have_first) { first_keys = keys; have_first = true; }
                else VF_CHECK(keys == first_keys, N + "|union|key-set-depends-on-presentation-order", ctx);
                if (r.chance(0.3)) check_filter<T>(res, o, r, N + "|filter-union-result", ctx);
                sig(mix64(mix64(o.theta, o.e.size()), mix64(0x0111 + T::id(), n)));
              }
            }
          }
          if (reuse && round == 0) { OpScope os("union"); u.reset(); count("union_reset"); }
        }
      }
      count("union_families");
    }

    // ---- intersection
    {
      std::vector<uint64_t> first_keys; bool have_first = false;
      for (auto& perm : perms) {
        auto x_ = T::make_inter(cfg, seed);
        InterModel im;
        {
          const std::string ctx = "intersection before any update";
          VF_CHECK(!x_.has_result(), N + "|intersection|has_result-before-update", ctx);
        }
        std::string fdesc;
        for (size_t j = 0; j < perm.size(); ++j) {
          const In& in = ins[perm[j]];
          const int form = pick_form(r); const bool ord = r.coin();
          fdesc += std::string(j ? "," : "") + "#" + std::to_string(perm[j]) + ":" + (in.is_theta ? "theta" : form_name(form));
          {
            OpScope os("intersection");
            Held<T> hd = make_form<T>(in, form, ord, seed, cfg);
            dispatch<T>(hd, [&](auto&& sk) { x_.update(std::forward<decltype(sk)>(sk)); });
            if (hd.rvalue()) count("rvalue_operand_intersection");
            else if (r.chance(0.25)) check_operand_intact<T>(hd, in, N + "|intersection-lvalue-operand", "after intersection.update of input#" + std::to_string(perm[j]) + " as " + form_name(form));
          }
          if (in.is_theta) count("theta_operand_intersection");
          im.update(in);
          if (j + 1 == perm.size() || r.chance(0.5)) {
            const bool ro = r.coin();
            const std::string ctx = "intersection presented=[" + fdesc + "] ordered=" + std::to_string(ro);
            OpScope os("intersection");
            VF_CHECK(x_.has_result(), N + "|intersection|has_result-after-update", ctx);
            auto res = x_.get_result(ro);
            Obs<M> o = read_sketch<T>(res, N + "|intersection", ctx);
            if (ro) VF_CHECK(o.ordered, N + "|intersection|ordered-requested-not-flagged", ctx);
            Exp<M> x = im.result();
            compare<T>(o, x, N + "|intersection", ctx);
            T::check_result_cfg(res, cfg, N + "|intersection", ctx);
            count("intersection_results");
            if (!o.e.empty() && j >= 1) count(std::string("intersection_merged_summaries_") + T::name());
            if (j + 1 == perm.size()) {
              std::vector<uint64_t> keys; for (auto& kv : o.e) keys.push_back(kv.first);
              if (!have_first) { first_keys = keys; have_first = true; }
              else VF_CHECK(keys == first_keys, N + "|intersection|key-set-depends-on-presentation-order", ctx);
              if (r.chance(0.3)) check_filter<T>(res, o, r, N + "|filter-intersection-result", ctx);
              sig(mix64(mix64(o.theta, o.e.size()), mix64(0x0222 + T::id(), n)));
            }
          }
        }
      }
      count("intersection_families");
    }

    // ---- A-not-B over ordered pairs
    {
      auto anb = T::make_anotb(seed);
      for (size_t a = 0; a < n; ++a) for (size_t b = 0; b < n; ++b) {
        if (a == b && !r.chance(0.15)) continue;
        const In& A = ins[a]; const In& B = ins[b];
        if (A.is_theta && !T::anotb_accepts_base_a) continue;
        const int fa = pick_form(r), fb = pick_form(r); const bool oa = r.coin(), ob = r.coin(), ro = r.coin();
        const std::string ctx = std::string("a_not_b A=#") + std::to_string(a) + ":" + (A.is_theta ? "theta" : form_name(fa)) + (oa ? "(ord)" : "") +
          " B=#" + std::to_string(b) + ":" + (B.is_theta ? "theta" : form_name(fb)) + (ob ? "(ord)" : "") + " ordered=" + std::to_string(ro);
        Exp<M> x = model_a_not_b(A, B);
        OpScope os("a_not_b");
        std::unique_ptr<typename T::CompactSketch> res;
        {
          Held<T> ha = make_form<T>(A, fa, oa, seed, cfg);
          Held<T> hb = make_form<T>(B, fb, ob, seed, cfg);
          dispatch<T>(ha, [&](auto&& sa) {
            dispatch_const<T>(hb, [&](const auto& sb) { T::anotb_compute(anb, std::forward<decltype(sa)>(sa), sb, ro, res); });
          });
          if (ha.rvalue()) count("rvalue_operand_a_not_b");
          else if (r.chance(0.25)) check_operand_intact<T>(ha, A, N + "|a_not_b-lvalue-operand-A", ctx);
          if (r.chance(0.25)) check_operand_intact<T>(hb, B, N + "|a_not_b-operand-B", ctx);
        }   // operands (including moved-from ones) are destroyed before the result is read
        if (res) {
          Obs<M> o = read_sketch<T>(*res, N + "|a_not_b", ctx);
          if (ro) VF_CHECK(o.ordered, N + "|a_not_b|ordered-requested-not-flagged", ctx);
          compare<T>(o, x, N + "|a_not_b", ctx);
          T::check_result_cfg(*res, cfg, N + "|a_not_b", ctx);
          count("a_not_b_results");
          if (!o.e.empty() && o.e.size() < A.e.size()) count(std::string("a_not_b_mixed_") + T::name());
          if (r.chance(0.2)) check_filter<T>(*res, o, r, N + "|filter-a_not_b-result", ctx);
          sig(mix64(mix64(o.theta, o.e.size()), mix64(0x0333 + T::id(), A.e.size())));
        }
        if (A.is_theta) count("theta_operand_a_not_b_A");
        if (B.is_theta) count("theta_operand_a_not_b_B");
      }
      count("a_not_b_families");
    }
    // the inputs themselves (copied, compacted, serialized, moved-from copies ...) are still what they were
    for (size_t i = 0; i < n; ++i) {
      if (ins[i].is_theta) continue;
      const std::string ctx = "input#" + std::to_string(i) + " re-read after all set operations";
      Obs<M> o = read_sketch<T>(*ins[i].us, N + "|input-after-operations", ctx);
      Exp<M> x; x.theta = ins[i].theta; x.empty = ins[i].empty; x.e = ins[i].e;
      compare<T>(o, x, N + "|input-after-operations", ctx);
    }
    if (want_sample()) sample("{\"family\":" + jstr(G().cur_desc) + "}");
    (void)idx;
  }
};

// ------------------------------------------------------------------ serialization helpers
template<typename CS, typename SD> inline std::string ser_stream_g(const CS& c, const SD& sd) {
  std::stringstream ss(std::ios::in | std::ios::out | std::ios::binary);
  c.serialize(ss, sd);
  return ss.str();
}
template<typename CS, typename SD> inline std::string ser_bytes_g(const CS& c, const SD& sd) {
  auto v = c.serialize(0, sd);
  return std::string(v.begin(), v.end());
}
template<typename CS, typename SD> inline CS deser_stream_g(const std::string& b, uint64_t seed, const SD& sd) {
  std::stringstream ss(b, std::ios::in | std::ios::binary);
  return CS::deserialize(ss, seed, sd);
}


// 5 : 2  programs : set-operation families
template<typename T> void run_typed(uint64_t idx, Rng& r) {
  const uint64_t h = mix64(idx, 0xC13);
  if (((h >> 8) % 7) >= 5) Fam<T>::run(idx, r); else Prog<T>::run(idx, r);
}

}} // namespace vf::c13
#endif
