// C09 — generic serialization round-trip oracle shared by the c09_*.cpp units.
//
// roundtrip(ops, sketch, rng) checks, for ONE sketch state and ONE image format:
//   * bytes(0) == stream image                       key  <fam>|bytes-vs-stream|...
//   * size == advertised size (and <= max size)      key  <fam>|size|...
//   * bytes(h)[h:] == bytes(0), |bytes(h)| == h+|bytes(0)| for h in {1,7,8,64}
//                                                     key  <fam>|header|...
//   * deserialize(bytes) from an exactly-sized heap block (ASan sees any over-read)
//   * deserialize(stream) with sentinel bytes appended: reader stops exactly at the image end
//                                                     key  <fam>|stream-read|...
//   * deserialize(stream) of the exact image (nothing after it)
//   * observe(restored) == observe(original)          key  <fam>|restore-<path>|observe-differs
//   * re-serialised image == image (after the format's documented canonicalisation, if any)
//                                                     key  <fam>|reserialize-<path>|image-differs
//   * continue-then-compare                            key  <fam>|continue-<path>|observe-differs
// Every library call is wrapped: an exception is a violation with its own key (<fam>|<op>|throws).
#ifndef VF_C09_RT_HPP
#define VF_C09_RT_HPP

#include "core.hpp"
#include <common_defs.hpp>
#include <memory>
#include <sstream>
#include <functional>
#include <cinttypes>

namespace vf { namespace c09 {

typedef std::vector<uint8_t> Bytes;

static const unsigned HEADERS[] = {1, 7, 8, 64};

// ------------------------------------------------------------------ read-out builder
struct Obs {
  std::string s;
  Obs& raw(const std::string& name, const std::string& v) { s += name; s += '='; s += v; s += ';'; return *this; }
  template<typename T> typename std::enable_if<std::is_integral<T>::value, Obs&>::type
  add(const std::string& name, T v) { return raw(name, std::to_string(v)); }
  Obs& add(const std::string& name, bool v) { return raw(name, v ? "1" : "0"); }
  static std::string f64(double d) {
    if (std::isnan(d)) return "nan";
    char b[64]; uint64_t u; memcpy(&u, &d, 8);
    snprintf(b, sizeof b, "%.17g/%016" PRIx64, d, u);
    return b;
  }
  static std::string f32(float d) {
    if (std::isnan(d)) return "nan";
    char b[64]; uint32_t u; memcpy(&u, &d, 4);
    snprintf(b, sizeof b, "%.9g/%08x", static_cast<double>(d), u);
    return b;
  }
  Obs& add(const std::string& name, double v) { return raw(name, f64(v)); }
  Obs& add(const std::string& name, float v) { return raw(name, f32(v)); }
  static std::string strv(const std::string& v) {
    std::string o = "'" + hexbytes(v.data(), v.size(), 64) + "'";
    if (v.size() > 64) { uint64_t h = v.size(); for (unsigned char c : v) h = (h ^ c) * 0x100000001b3ULL; o += "#" + std::to_string(v.size()) + ":" + std::to_string(h); }   // long: length and FNV hash of all of it
    return o;
  }
  Obs& add(const std::string& name, const std::string& v) { return raw(name, strv(v)); }
  Obs& add(const std::string& name, const char* v) { return raw(name, v); }
  // a call that may legitimately throw (e.g. queries on an empty sketch): record "throws" instead
  template<typename F> Obs& call(const std::string& name, F&& f) {
    try { add(name, f()); } catch (const std::exception&) { raw(name, "throws"); }
    return *this;
  }
};

inline std::string item_str(double v) { return Obs::f64(v); }
inline std::string item_str(float v) { return Obs::f32(v); }
inline std::string item_str(const std::string& v) { return Obs::strv(v); }

// an item longer than the 64 KiB piece the stream string serde reserves at a time; position-dependent content, sorts last
inline std::string long_string(Rng& r) {
  static const size_t L[] = {65535, 65536, 65537, 70001, 131073};
  const size_t l = L[r.below(5)];
  std::string s(l, 'z');
  for (size_t i = 1; i < l; ++i) s[i] = static_cast<char>('a' + (i * 7 + i / 251) % 26);
  return s;
}
template<typename T> struct LongItem { static bool make(Rng&, T&) { return false; } };
template<> struct LongItem<std::string> { static bool make(Rng& r, std::string& out) { out = long_string(r); return true; } };
template<typename T> typename std::enable_if<std::is_integral<T>::value, std::string>::type item_str(T v) { return std::to_string(v); }

inline std::string first_diff(const std::string& a, const std::string& b) {
  size_t i = 0;
  while (i < a.size() && i < b.size() && a[i] == b[i]) ++i;
  // back up to the start of the field
  size_t st = i;
  while (st > 0 && a[st - 1] != ';') --st;
  if (i - st > 100) st = i - 100;
  return "at char " + std::to_string(i) + " original: ..." + a.substr(st, 160) + " restored: ..." + b.substr(st, 160);
}

inline std::string bytes_diff(const Bytes& a, const Bytes& b) {
  size_t i = 0;
  while (i < a.size() && i < b.size() && a[i] == b[i]) ++i;
  const size_t st = i > 8 ? i - 8 : 0;
  return "sizes " + std::to_string(a.size()) + " vs " + std::to_string(b.size()) + ", first difference at offset " + std::to_string(i) +
    " a[" + std::to_string(st) + "..]=" + hexbytes(a.data() + st, a.size() - st, 40) + " b[" + std::to_string(st) + "..]=" + hexbytes(b.data() + st, b.size() - st, 40);
}

template<typename V> Bytes to_std_bytes(const V& v) { return Bytes(v.begin(), v.end()); }

// pin the library's own randomness
inline void pin_random(uint64_t x) {
  datasketches::random_utils::rand.seed(static_cast<std::mt19937_64::result_type>(x));
  datasketches::random_utils::random_bit.seed(static_cast<uint32_t>(x ^ (x >> 32)));
}

// ------------------------------------------------------------------ per-format operations
template<typename S> struct Ops {
  std::string fam;                                            // key prefix: family/type/format
  std::function<Bytes(const S&, unsigned)> to_bytes;          // byte-vector path with header
  bool has_header = true;                                     // false: API offers no header argument (to_bytes ignores it)
  std::function<void(const S&, std::ostream&)> to_stream;     // stream path
  std::function<S(const void*, size_t)> from_bytes;
  std::function<S(std::istream&)> from_stream;
  std::function<long long(const S&)> advertised;              // optional: advertised exact size
  std::function<long long(const S&)> max_size;                // optional: advertised upper bound
  std::function<std::string(const S&)> observe;               // full public read-out
  std::function<Bytes(const Bytes&)> canon;                   // optional: canonical entry order of the image
  std::function<void(S&, Rng&)> cont;                         // optional: deterministic continuation (updates / merges)
  std::function<std::string(const S&)> observe_after;         // optional: read-out compared after continuation (default: observe)
};

struct Result {
  Bytes image;        // bytes(0) (empty if serialization failed)
  bool ok = false;    // image produced
};

template<typename F>
static bool guarded(const std::string& key, const std::string& ctx, F&& f) {
  try { f(); return true; }
  catch (const std::exception& e) { checked(); fail(key, ctx + " exception: " + e.what()); return false; }
}

template<typename S>
Result roundtrip(const Ops<S>& o, S& sk, Rng& r, const std::string& ctx) {
  Result res;
  const std::string& F = o.fam;
  count("rt:" + F);
  // ---- images
  Bytes b0;
  if (!guarded(F + "|serialize-bytes|throws", ctx, [&] { b0 = o.to_bytes(sk, 0); })) return res;
  count("path_bytes");
  std::string st;
  const bool st_ok = guarded(F + "|serialize-stream|throws", ctx, [&] {
    std::ostringstream os(std::ios::binary); o.to_stream(sk, os);
    VF_CHECK(os.good(), F + "|serialize-stream|stream-not-good", ctx);
    st = os.str();
  });
  if (st_ok) {
    count("path_stream");
    const Bytes sb(st.begin(), st.end());
    if (sb.size() != b0.size()) { checked(); fail(F + "|bytes-vs-stream|size-differs", ctx + " bytes=" + std::to_string(b0.size()) + " stream=" + std::to_string(sb.size()) + " " + bytes_diff(b0, sb)); }
    else VF_CHECK(sb == b0, F + "|bytes-vs-stream|content-differs", ctx + " " + bytes_diff(b0, sb));
  }
  if (o.advertised) {
    long long adv = -1;
    if (guarded(F + "|advertised-size|throws", ctx, [&] { adv = o.advertised(sk); })) {
      VF_CHECK(adv == static_cast<long long>(b0.size()), F + "|size|advertised-vs-bytes", ctx + " advertised=" + std::to_string(adv) + " bytes=" + std::to_string(b0.size()));
      if (st_ok) VF_CHECK(adv == static_cast<long long>(st.size()), F + "|size|advertised-vs-stream", ctx + " advertised=" + std::to_string(adv) + " stream=" + std::to_string(st.size()));
      count("advertised_size_checked");
    }
  }
  if (o.max_size) {
    long long mx = -1;
    if (guarded(F + "|max-size|throws", ctx, [&] { mx = o.max_size(sk); })) {
      VF_CHECK(static_cast<long long>(b0.size()) <= mx, F + "|size|exceeds-advertised-max", ctx + " max=" + std::to_string(mx) + " bytes=" + std::to_string(b0.size()));
      count("advertised_max_checked");
    }
  }
  // ---- headers
  if (o.has_header) {
    count("header_0");
    for (unsigned h : HEADERS) {
      Bytes bh;
      if (!guarded(F + "|header|serialize-throws", ctx + " h=" + std::to_string(h), [&] { bh = o.to_bytes(sk, h); })) continue;
      count("header_" + std::to_string(h));
      if (bh.size() != b0.size() + h) { checked(); fail(F + "|header|size-not-h-plus-image", ctx + " h=" + std::to_string(h) + " got=" + std::to_string(bh.size()) + " image=" + std::to_string(b0.size())); continue; }
      const Bytes tail(bh.begin() + h, bh.end());
      VF_CHECK(tail == b0, F + "|header|image-after-header-differs", ctx + " h=" + std::to_string(h) + " " + bytes_diff(b0, tail));
    }
  }
  res.image = b0; res.ok = true;
  const Bytes& img = b0;   // the stream image is additionally restored below if it differs
  std::string obs0;
  if (!guarded(F + "|observe-original|throws", ctx, [&] { obs0 = o.observe(sk); })) return res;
  const Bytes c0 = o.canon ? o.canon(img) : img;

  // ---- restore by the three routes
  std::unique_ptr<S> rest[3];
  static const char* route[3] = {"bytes", "stream", "stream-exact"};
  // (0) bytes: exactly-sized heap block
  guarded(F + "|restore-bytes|throws", ctx, [&] {
    std::unique_ptr<uint8_t[]> blk(new uint8_t[img.size() ? img.size() : 1]);
    if (!img.empty()) memcpy(blk.get(), img.data(), img.size());
    rest[0].reset(new S(o.from_bytes(blk.get(), img.size())));
    // the source block is released here: the restored sketch must not refer to it
  });
  // (1) stream image followed by sentinel bytes
  const std::string simg = st_ok ? st : std::string(img.begin(), img.end());
  guarded(F + "|restore-stream|throws", ctx, [&] {
    std::string withs = simg;
    for (int i = 0; i < 40; ++i) withs += static_cast<char>(i % 3 == 0 ? 0xA5 : (i % 3 == 1 ? 0xFF : 0x01));
    std::istringstream is(withs, std::ios::binary);
    rest[1].reset(new S(o.from_stream(is)));
    const bool good = !is.fail();
    const long long pos = good ? static_cast<long long>(is.tellg()) : -1;
    checked();
    if (!good) fail(F + "|stream-read|stream-failed-after-read", ctx + " image=" + std::to_string(simg.size()));
    else if (pos < static_cast<long long>(simg.size())) fail(F + "|stream-read|consumed-less-than-image", ctx + " consumed=" + std::to_string(pos) + " image=" + std::to_string(simg.size()));
    else if (pos > static_cast<long long>(simg.size())) fail(F + "|stream-read|consumed-more-than-image", ctx + " consumed=" + std::to_string(pos) + " image=" + std::to_string(simg.size()));
    count("sentinel_stream_reads");
  });
  // (2) stream holding exactly the image
  guarded(F + "|restore-stream-exact|throws", ctx, [&] {
    std::istringstream is(simg, std::ios::binary);
    rest[2].reset(new S(o.from_stream(is)));
  });
  for (int i = 0; i < 3; ++i) {
    if (!rest[i]) continue;
    const std::string R = route[i];
    // re-serialise BEFORE any query: queries may legitimately reorganise mutable internals (sorting of level 0 ...)
    if (i < 2) {
      Bytes b1;
      if (guarded(F + "|reserialize-" + R + "|throws", ctx, [&] { b1 = o.to_bytes(*rest[i], 0); })) {
        if (b1 == img) count("reserialize_identical");
        else if (o.canon) count("reserialize_equal_after_canon_only");
        const Bytes c1 = o.canon ? o.canon(b1) : b1;
        VF_CHECK(c1 == c0, F + "|reserialize-" + R + "|image-differs", ctx + " " + bytes_diff(c0, c1));
      }
    }
    std::string obs1;
    if (guarded(F + "|observe-restored-" + R + "|throws", ctx, [&] { obs1 = o.observe(*rest[i]); })) {
      if (obs1 != obs0) { checked(); fail(F + "|restore-" + R + "|observe-differs", ctx + " " + first_diff(obs0, obs1)); }
      else checked();
    }
  }
  // ---- continue-then-compare (mutates sk and the restored copies)
  if (o.cont) {
    const uint64_t cs = r.next();
    const uint64_t ls = r.next();
    const auto& obsf = o.observe_after ? o.observe_after : o.observe;
    std::string a0;
    bool ok0 = guarded(F + "|continue-original|throws", ctx, [&] { Rng cr(cs); pin_random(ls); o.cont(sk, cr); a0 = obsf(sk); });
    for (int i = 0; i < 2 && ok0; ++i) {
      if (!rest[i]) continue;
      const std::string R = route[i];
      std::string a1;
      if (guarded(F + "|continue-" + R + "|throws", ctx, [&] { Rng cr(cs); pin_random(ls); o.cont(*rest[i], cr); a1 = obsf(*rest[i]); })) {
        if (a1 != a0) { checked(); fail(F + "|continue-" + R + "|observe-differs", ctx + " " + first_diff(a0, a1)); }
        else checked();
        count("continuations");
      }
    }
  }
  return res;
}

}} // namespace vf::c09
#endif
