// C10 group A: Theta, Tuple, Array-of-doubles, HLL, CPC — state recipes, readers, decoder cross-checks.
#ifndef VF_C10_FAM_A_HPP
#define VF_C10_FAM_A_HPP

#include "c10_common.hpp"
// sub-groups (compile units): C10_A1 = theta, tuple, array of doubles;  C10_A2 = HLL, CPC
#if !defined(C10_A1) && !defined(C10_A2)
#define C10_A1
#define C10_A2
#endif
#ifdef C10_A1
#include <theta_sketch.hpp>
#include <theta_union.hpp>
#include <theta_intersection.hpp>
#include <theta_a_not_b.hpp>
#include <tuple_sketch.hpp>
#include <tuple_union.hpp>
#include <array_of_doubles_sketch.hpp>
#endif
#ifdef C10_A2
#include <hll.hpp>
#include <cpc_sketch.hpp>
#include <cpc_union.hpp>
#endif

namespace vf { namespace c10 {
using namespace datasketches;

#ifdef C10_A1
template<typename S, typename U> void apply_update_kv(S& sk, const Val& v, const U& u) {
  switch (v.kind) {
    case V_U64: sk.update(static_cast<uint64_t>(v.u), u); break;
    case V_I64: sk.update(static_cast<int64_t>(v.u), u); break;
    case V_U32: sk.update(static_cast<uint32_t>(v.u), u); break;
    case V_I32: sk.update(static_cast<int32_t>(static_cast<uint32_t>(v.u)), u); break;
    case V_U16: sk.update(static_cast<uint16_t>(v.u), u); break;
    case V_I16: sk.update(static_cast<int16_t>(static_cast<uint16_t>(v.u)), u); break;
    case V_U8:  sk.update(static_cast<uint8_t>(v.u), u); break;
    case V_I8:  sk.update(static_cast<int8_t>(static_cast<uint8_t>(v.u)), u); break;
    case V_F64: sk.update(v.d, u); break;
    case V_F32: sk.update(v.f, u); break;
    case V_STR: sk.update(v.s, u); break;
    case V_BYTES: sk.update(static_cast<const void*>(v.s.data()), v.s.size(), u); break;
    default: break;
  }
}

// =================================================================== Theta
struct ThetaState { compact_theta_sketch sk; uint64_t seed; bool compressed; };

inline update_theta_sketch theta_fill(Rng& r, uint8_t lg_k, float p, uint64_t seed, uint64_t n, uint64_t domain, uint64_t salt) {
  auto u = update_theta_sketch::builder().set_lg_k(lg_k).set_p(p).set_seed(seed).build();
  for (uint64_t i = 0; i < n; ++i) { Val v = gen_val(r, domain); if (v.kind == V_U64) v.u ^= salt; apply_update(u, v); }
  return u;
}

inline ThetaState gen_theta(int variant, Rng& r, bool small) {
  const int kind = variant % 8; const bool ordered = (variant / 8) % 2; const bool compressed = (variant / 16) % 2;
  const uint64_t seed = seed_for(variant);
  const uint8_t lg_k = static_cast<uint8_t>(5 + r.below(small ? 4 : 8));
  const uint64_t k = 1ULL << lg_k;
  const uint64_t dom = 1ULL << 40;
  switch (kind) {
    case 0: return {theta_fill(r, lg_k, 1.0f, seed, 0, dom, 0).compact(ordered), seed, compressed};
    case 1: return {theta_fill(r, lg_k, 1.0f, seed, 1, 1, r.next()).compact(ordered), seed, compressed};
    case 2: return {theta_fill(r, lg_k, 1.0f, seed, 2 + r.below(k / 2), dom, 0).compact(ordered), seed, compressed};
    case 3: return {theta_fill(r, lg_k, 1.0f, seed, 2 * k + r.below(4 * k), dom, 0).compact(ordered), seed, compressed};
    case 4: return {theta_fill(r, lg_k, r.coin() ? 0.1f : 1e-3f, seed, r.below(40), dom, 0).compact(ordered), seed, compressed};
    case 5: {
      auto un = theta_union::builder().set_lg_k(lg_k).set_seed(seed).build();
      const int parts = 2 + static_cast<int>(r.below(2));
      for (int i = 0; i < parts; ++i) un.update(theta_fill(r, lg_k, 1.0f, seed, r.below(3 * k), dom, 0));
      return {un.get_result(ordered), seed, compressed};
    }
    case 6: {
      theta_intersection in(seed);
      const uint64_t d = 3 * k;   // overlapping domains
      in.update(theta_fill(r, lg_k, 1.0f, seed, 2 * k, d, 0));
      in.update(theta_fill(r, lg_k, 1.0f, seed, r.coin() ? 2 * k : 5, r.coin() ? d : dom, 0));
      return {in.get_result(ordered), seed, compressed};
    }
    default: {
      theta_a_not_b anb(seed);
      const uint64_t d = 4 * k;
      auto a = theta_fill(r, lg_k, 1.0f, seed, 1 + r.below(3 * k), d, 0);
      auto b = theta_fill(r, lg_k, 1.0f, seed, r.below(2 * k), d, 0);
      return {anb.compute(a, b, ordered), seed, compressed};
    }
  }
}

template<typename SK> void theta_common_readout(J& j, const SK& s) {
  j.put("is_empty", s.is_empty()).put("is_ordered", s.is_ordered()).put("is_estimation_mode", s.is_estimation_mode())
   .put("theta64", s.get_theta64()).put("seed_hash", s.get_seed_hash()).put("num_retained", s.get_num_retained())
   .put("q_estimate", s.get_estimate()).put("q_lower_bound_2", s.get_lower_bound(2)).put("q_upper_bound_2", s.get_upper_bound(2));
}
template<typename SK> std::string readout_theta_body(const SK& s) {
  J j; j.put("family", std::string("theta"));
  theta_common_readout(j, s);
  j.arr("entries", theta_entries(s));
  return j.s;
}
inline std::string readout_theta(const compact_theta_sketch& s) { return readout_theta_body(s) + "\n}\n"; }
// with the image at hand: additionally the zero-copy reader (wrapped_compact_theta_sketch) must present the same content
inline std::string readout_theta(const compact_theta_sketch& s, const std::string& img, uint64_t seed) {
  const std::string a = readout_theta_body(s);
  std::string w;
  try { w = readout_theta_body(wrapped_compact_theta_sketch::wrap(img.data(), img.size(), seed)); } catch (const std::exception& e) { w = std::string("wrap threw: ") + e.what(); }
  return a + ",\n \"wrapped_view\":" + jstr(a == w ? std::string("same content as deserialized") : "DIFFERS: " + w.substr(0, 300)) + "\n}\n";
}
inline std::string write_theta(const ThetaState& st, bool stream) {
  if (stream) { std::ostringstream os; if (st.compressed) st.sk.serialize_compressed(os); else st.sk.serialize(os); return os.str(); }
  return to_str(st.compressed ? st.sk.serialize_compressed() : st.sk.serialize());
}
inline compact_theta_sketch read_theta(const std::string& img, bool stream, uint64_t seed) {
  if (stream) { std::istringstream is(img); return compact_theta_sketch::deserialize(is, seed); }
  return compact_theta_sketch::deserialize(img.data(), img.size(), seed);
}

inline void decode_check_theta(const compact_theta_sketch& s, uint64_t seed, const std::string& img, const std::string& ctx, bool compressed) {
  Theta d = decode_theta(img.data(), img.size());
  const std::vector<uint64_t> api = theta_entries(s);
  VF_CHECK(d.seed_hash == ref_seed_hash(seed), "theta|image-vs-api|seed-hash-not-low16-of-murmur-of-seed", ctx + " stored=" + std::to_string(d.seed_hash) + " ref=" + std::to_string(ref_seed_hash(seed)));
  VF_CHECK(d.seed_hash == s.get_seed_hash(), "theta|image-vs-api|seed-hash", ctx);
  VF_CHECK(d.empty == s.is_empty(), "theta|image-vs-api|empty-flag", ctx);
  VF_CHECK(d.theta == s.get_theta64(), "theta|image-vs-api|theta", ctx + " stored=" + std::to_string(d.theta) + " api=" + std::to_string(s.get_theta64()));
  VF_CHECK(d.entries == api, "theta|image-vs-api|entries-or-order", ctx + " stored=" + std::to_string(d.entries.size()) + " api=" + std::to_string(api.size()));
  if (d.ser_ver == 3 && !d.empty && api.size() > 1) VF_CHECK(d.ordered == s.is_ordered(), "theta|image-vs-api|ordered-flag", ctx);
  if (d.ordered) VF_CHECK(std::is_sorted(d.entries.begin(), d.entries.end()), "theta|image|ordered-flag-but-entries-not-ascending", ctx);
  // documented form selection
  const bool est = s.is_estimation_mode();
  if (d.ser_ver == 3) {
    const unsigned want = est ? 3 : (s.is_empty() || api.size() == 1) ? 1 : 2;
    VF_CHECK(d.pre_longs == want, "theta|image|v3-preamble-longs-vs-state", ctx + " pre_longs=" + std::to_string(d.pre_longs) + " want=" + std::to_string(want));
    if (compressed && s.is_ordered() && !api.empty() && !(api.size() == 1 && !est)) VF_CHECK(false, "theta|image|compressed-requested-but-v3-written", ctx);
  } else {
    VF_CHECK(compressed, "theta|image|v4-written-though-not-requested", ctx);
    VF_CHECK(d.pre_longs == (est ? 2 : 1), "theta|image|v4-preamble-longs-vs-state", ctx);
    count("theta_v4_decoded");
  }
  for (uint64_t e : d.entries) VF_CHECK(e != 0 && e < d.theta, "theta|image|entry-not-below-theta", ctx + " entry=" + std::to_string(e));
  count(std::string("theta_v") + std::to_string(d.ser_ver) + "_pre" + std::to_string(d.pre_longs));
  sig(mix64(mix64(d.theta, d.entries.size()), mix64(d.flags, d.ser_ver)));
}

inline void register_theta() {
  Family f; f.name = "theta"; f.group = 1; f.nvariants = 32;
  f.build = [](int v, Rng& r, bool small) { ThetaState st = gen_theta(v, r, small); const std::string img = write_theta(st, false); return Built{img, readout_theta(st.sk, img, st.seed)}; };
  f.read = [](const std::string& img, bool stream, int v) { return readout_theta(read_theta(img, stream, seed_for(v)), img, seed_for(v)); };
  f.decode_case = [](int v, Rng& r, bool small) {
    ThetaState st = gen_theta(v, r, small);
    const std::string ctx = "variant=" + std::to_string(v) + " retained=" + std::to_string(st.sk.get_num_retained());
    const std::string b = write_theta(st, false), s = write_theta(st, true);
    check_header_variants("theta", b, [&](unsigned h) { return st.compressed ? st.sk.serialize_compressed(h) : st.sk.serialize(h); }, ctx);
    decode_check_theta(st.sk, st.seed, b, ctx + " path=bytes", st.compressed);
    if (s != b) { count("theta_paths_differ"); decode_check_theta(st.sk, st.seed, s, ctx + " path=stream", st.compressed); }
    count("decoded_theta");
  };
  families().push_back(f);
}

// =================================================================== Tuple (double summary, default policy = sum)
using tuple_upd = update_tuple_sketch<double>;
using tuple_cmp = compact_tuple_sketch<double>;
struct TupleState { tuple_cmp sk; uint64_t seed; };

inline tuple_upd tuple_fill(Rng& r, uint8_t lg_k, float p, uint64_t seed, uint64_t n, uint64_t domain) {
  auto u = tuple_upd::builder().set_lg_k(lg_k).set_p(p).set_seed(seed).build();
  for (uint64_t i = 0; i < n; ++i) { Val v = gen_val(r, domain); apply_update_kv(u, v, double(r.below(1000)) * 0.25 - 3.0); }
  return u;
}
inline TupleState gen_tuple(int variant, Rng& r, bool small) {
  const int kind = variant % 6; const bool ordered = (variant / 6) % 2;
  const uint64_t seed = seed_for(variant);
  const uint8_t lg_k = static_cast<uint8_t>(5 + r.below(small ? 3 : 7));
  const uint64_t k = 1ULL << lg_k, dom = 1ULL << 40;
  switch (kind) {
    case 0: return {tuple_fill(r, lg_k, 1.0f, seed, 0, dom).compact(ordered), seed};
    case 1: return {tuple_fill(r, lg_k, 1.0f, seed, 1, dom).compact(ordered), seed};
    case 2: return {tuple_fill(r, lg_k, 1.0f, seed, 2 + r.below(k / 2), k / 3 + 2).compact(ordered), seed};
    case 3: return {tuple_fill(r, lg_k, 1.0f, seed, 2 * k + r.below(3 * k), dom).compact(ordered), seed};
    case 4: return {tuple_fill(r, lg_k, 0.05f, seed, r.below(60), dom).compact(ordered), seed};
    default: {
      auto un = tuple_union<double>::builder().set_lg_k(lg_k).set_seed(seed).build();
      un.update(tuple_fill(r, lg_k, 1.0f, seed, r.below(3 * k), 2 * k));
      un.update(tuple_fill(r, lg_k, 1.0f, seed, r.below(3 * k), 2 * k));
      return {un.get_result(ordered), seed};
    }
  }
}
inline std::string readout_tuple(const tuple_cmp& s) {
  J j; j.put("family", std::string("tuple"));
  theta_common_readout(j, s);
  std::vector<uint64_t> keys; std::vector<double> sums;
  for (const auto& e : s) { keys.push_back(e.first); sums.push_back(e.second); }
  j.arr("keys", keys).arr("summaries", sums);
  return j.done();
}
inline std::string write_tuple(const tuple_cmp& s, bool stream) {
  if (stream) { std::ostringstream os; s.serialize(os); return os.str(); }
  return to_str(s.serialize());
}
inline tuple_cmp read_tuple(const std::string& img, bool stream, uint64_t seed) {
  if (stream) { std::istringstream is(img); return tuple_cmp::deserialize(is, seed); }
  return tuple_cmp::deserialize(img.data(), img.size(), seed);
}
inline void decode_check_tuple(const tuple_cmp& s, uint64_t seed, const std::string& img, const std::string& ctx) {
  Tuple<double> d = decode_tuple<double>(img.data(), img.size());
  std::vector<uint64_t> keys; std::vector<double> sums;
  for (const auto& e : s) { keys.push_back(e.first); sums.push_back(e.second); }
  VF_CHECK(d.seed_hash == ref_seed_hash(seed), "tuple|image-vs-api|seed-hash-not-low16-of-murmur-of-seed", ctx);
  VF_CHECK(d.seed_hash == s.get_seed_hash(), "tuple|image-vs-api|seed-hash", ctx);
  VF_CHECK(d.empty == s.is_empty(), "tuple|image-vs-api|empty-flag", ctx);
  VF_CHECK(d.theta == s.get_theta64(), "tuple|image-vs-api|theta", ctx);
  VF_CHECK(d.keys == keys, "tuple|image-vs-api|keys-or-order", ctx);
  VF_CHECK(same_bits(d.summaries, sums), "tuple|image-vs-api|summaries", ctx);
  if (!d.empty && keys.size() > 1) VF_CHECK(d.ordered == s.is_ordered(), "tuple|image-vs-api|ordered-flag", ctx);
  const unsigned want = s.is_estimation_mode() ? 3 : (s.is_empty() || keys.size() == 1) ? 1 : 2;
  VF_CHECK(d.pre_longs == want, "tuple|image|preamble-longs-vs-state", ctx);
  count("tuple_pre" + std::to_string(d.pre_longs));
  sig(mix64(mix64(d.theta, d.keys.size()), 0x7071e + d.flags));
}
inline void register_tuple() {
  Family f; f.name = "tuple"; f.group = 1; f.nvariants = 12;
  f.build = [](int v, Rng& r, bool small) { TupleState st = gen_tuple(v, r, small); return Built{write_tuple(st.sk, false), readout_tuple(st.sk)}; };
  f.read = [](const std::string& img, bool stream, int v) { return readout_tuple(read_tuple(img, stream, seed_for(v))); };
  f.decode_case = [](int v, Rng& r, bool small) {
    TupleState st = gen_tuple(v, r, small);
    const std::string ctx = "variant=" + std::to_string(v) + " retained=" + std::to_string(st.sk.get_num_retained());
    const std::string b = write_tuple(st.sk, false), s = write_tuple(st.sk, true);
    check_header_variants("tuple", b, [&](unsigned h) { return st.sk.serialize(h); }, ctx);
    decode_check_tuple(st.sk, st.seed, b, ctx + " path=bytes");
    if (s != b) { count("tuple_paths_differ"); decode_check_tuple(st.sk, st.seed, s, ctx + " path=stream"); }
    count("decoded_tuple");
  };
  families().push_back(f);
}

// =================================================================== Array of doubles
struct AodState { compact_array_of_doubles_sketch sk; uint64_t seed; };
inline update_array_of_doubles_sketch aod_fill(Rng& r, uint8_t nv, uint8_t lg_k, float p, uint64_t seed, uint64_t n, uint64_t domain) {
  auto u = update_array_of_doubles_sketch::builder(nv).set_lg_k(lg_k).set_p(p).set_seed(seed).build();
  std::vector<double> vals(nv);
  for (uint64_t i = 0; i < n; ++i) {
    Val v = gen_val(r, domain);
    for (auto& x : vals) x = double(r.below(2000)) * 0.125 - 7.0;
    apply_update_kv(u, v, vals);
  }
  return u;
}
inline AodState gen_aod(int variant, Rng& r, bool small) {
  const int kind = variant % 5; const bool ordered = (variant / 5) % 2;
  const uint64_t seed = seed_for(variant);
  const uint8_t nv = static_cast<uint8_t>(1 + (variant % 3));
  const uint8_t lg_k = static_cast<uint8_t>(5 + r.below(small ? 2 : 7));
  const uint64_t k = 1ULL << lg_k, dom = 1ULL << 40;
  switch (kind) {
    case 0: return {aod_fill(r, nv, lg_k, 1.0f, seed, 0, dom).compact(ordered), seed};
    case 1: return {aod_fill(r, nv, lg_k, 1.0f, seed, 1, dom).compact(ordered), seed};
    case 2: return {aod_fill(r, nv, lg_k, 1.0f, seed, 2 + r.below(k / 2), k / 3 + 2).compact(ordered), seed};
    case 3: return {aod_fill(r, nv, lg_k, 1.0f, seed, 2 * k + r.below(2 * k), dom).compact(ordered), seed};
    default: return {aod_fill(r, nv, lg_k, 0.05f, seed, r.below(60), dom).compact(ordered), seed};
  }
}
inline std::string readout_aod(const compact_array_of_doubles_sketch& s) {
  J j; j.put("family", std::string("aod"));
  theta_common_readout(j, s);
  j.put("num_values", s.get_num_values());
  std::vector<uint64_t> keys; std::vector<double> vals;
  for (const auto& e : s) { keys.push_back(e.first); for (size_t q = 0; q < e.second.size(); ++q) vals.push_back(e.second.data()[q]); }
  j.arr("keys", keys).arr("values", vals);
  return j.done();
}
inline std::string write_aod(const compact_array_of_doubles_sketch& s, bool stream) {
  if (stream) { std::ostringstream os; s.serialize(os); return os.str(); }
  return to_str(s.serialize());
}
inline compact_array_of_doubles_sketch read_aod(const std::string& img, bool stream, uint64_t seed) {
  if (stream) { std::istringstream is(img); return compact_array_of_doubles_sketch::deserialize(is, seed); }
  return compact_array_of_doubles_sketch::deserialize(img.data(), img.size(), seed);
}
inline void decode_check_aod(const compact_array_of_doubles_sketch& s, uint64_t seed, const std::string& img, const std::string& ctx) {
  Aod d = decode_aod(img.data(), img.size());
  std::vector<uint64_t> keys; std::vector<std::vector<double>> vals;
  for (const auto& e : s) { keys.push_back(e.first); vals.push_back(std::vector<double>(e.second.data(), e.second.data() + e.second.size())); }
  VF_CHECK(d.seed_hash == ref_seed_hash(seed), "aod|image-vs-api|seed-hash-not-low16-of-murmur-of-seed", ctx);
  VF_CHECK(d.empty == s.is_empty(), "aod|image-vs-api|empty-flag", ctx);
  VF_CHECK(d.has_entries == (s.get_num_retained() > 0), "aod|image-vs-api|has-entries-flag", ctx);
  VF_CHECK(d.theta == s.get_theta64(), "aod|image-vs-api|theta", ctx);
  VF_CHECK(d.num_values == s.get_num_values(), "aod|image-vs-api|num-values", ctx);
  VF_CHECK(d.keys == keys, "aod|image-vs-api|keys-or-order", ctx);
  bool same = d.values.size() == vals.size();
  for (size_t i = 0; same && i < vals.size(); ++i) same = same_bits(d.values[i], vals[i]);
  VF_CHECK(same, "aod|image-vs-api|values", ctx);
  if (keys.size() > 1) VF_CHECK(d.ordered == s.is_ordered(), "aod|image-vs-api|ordered-flag", ctx);
  count(std::string("aod_") + (d.empty ? "empty" : d.has_entries ? "entries" : "nonempty_no_entries"));
  sig(mix64(mix64(d.theta, d.keys.size()), 0xa0d00 + d.flags + 256 * d.num_values));
}
inline void register_aod() {
  Family f; f.name = "aod"; f.group = 1; f.nvariants = 15;
  f.build = [](int v, Rng& r, bool small) { AodState st = gen_aod(v, r, small); return Built{write_aod(st.sk, false), readout_aod(st.sk)}; };
  f.read = [](const std::string& img, bool stream, int v) { return readout_aod(read_aod(img, stream, seed_for(v))); };
  f.decode_case = [](int v, Rng& r, bool small) {
    AodState st = gen_aod(v, r, small);
    const std::string ctx = "variant=" + std::to_string(v) + " retained=" + std::to_string(st.sk.get_num_retained());
    const std::string b = write_aod(st.sk, false), s = write_aod(st.sk, true);
    check_header_variants("aod", b, [&](unsigned h) { return st.sk.serialize(h); }, ctx);
    decode_check_aod(st.sk, st.seed, b, ctx + " path=bytes");
    if (s != b) { count("aod_paths_differ"); decode_check_aod(st.sk, st.seed, s, ctx + " path=stream"); }
    count("decoded_aod");
  };
  families().push_back(f);
}

#endif // C10_A1
#ifdef C10_A2
// =================================================================== HLL
// model = max register per slot / coupon set computed from the reference hash of every input
struct HllState { hll_sketch sk; bool compact; std::vector<Val> inputs; uint8_t lg_k; HllState(hll_sketch&& s, bool c, uint8_t l) : sk(std::move(s)), compact(c), lg_k(l) {} };

inline void hll_feed(hll_sketch& s, std::vector<Val>& in, Rng& r, uint64_t n, uint64_t domain, int kind = -1) {
  for (uint64_t i = 0; i < n; ++i) { Val v = gen_val(r, domain, kind); apply_update(s, v); if (!v.ignored()) in.push_back(v); }
}
inline HllState gen_hll(int variant, Rng& r, bool small) {
  const int state = variant % 8; const int tgt = (variant / 8) % 3; const bool compact = (variant / 24) % 2;
  const target_hll_type T = tgt == 0 ? HLL_4 : tgt == 1 ? HLL_6 : HLL_8;
  uint8_t lg_k = static_cast<uint8_t>(small ? 8 + r.below(3) : 8 + r.below(7));
  if (state == 5) lg_k = static_cast<uint8_t>(4 + r.below(4));
  const uint64_t k = 1ULL << lg_k, dom = 1ULL << 40;
  if (state == 6) {
    hll_union un(lg_k);
    std::vector<Val> in;
    const int parts = 2 + static_cast<int>(r.below(2));
    for (int i = 0; i < parts; ++i) {
      hll_sketch p(lg_k, r.coin() ? HLL_4 : HLL_8);   // same lg_k: the lg_k-mixing union defect (DESIGN §7 #1) is C04's business
      std::vector<Val> pin;
      hll_feed(p, pin, r, r.chance(0.3) ? r.below(6) : k / 4 + r.below(2 * k), dom);
      un.update(p);
      in.insert(in.end(), pin.begin(), pin.end());
    }
    HllState st(un.get_result(T), compact, lg_k); st.inputs = in; return st;
  }
  HllState st(hll_sketch(lg_k, T, state == 7), compact, lg_k);
  switch (state) {
    case 0: break;
    case 1: hll_feed(st.sk, st.inputs, r, 1 + r.below(7), dom); break;
    case 2: hll_feed(st.sk, st.inputs, r, 8 + r.below(std::max<uint64_t>(1, (3 * k) / 32 - 9)), dom); break;          // SET (lg_k >= 8)
    case 3: hll_feed(st.sk, st.inputs, r, k / 8 + r.below(k), dom); break;                                              // HLL, many zero registers
    case 4: hll_feed(st.sk, st.inputs, r, small ? 6 * k + r.below(30 * k) : std::min<uint64_t>(20 * k + r.below(200 * k), 250000 + r.below(150000)), dom, small ? -1 : V_U64); break;  // curMin > 0, exceptions
    case 5: hll_feed(st.sk, st.inputs, r, r.chance(0.3) ? r.below(8) : 8 + r.below(small ? 3000 : 200000), dom, V_U64); break;
    default: hll_feed(st.sk, st.inputs, r, r.below(20), dom); break;                                                     // start_full_size
  }
  return st;
}
inline HllState gen_hll_big_set(Rng& r) {
  const uint8_t lg_k = static_cast<uint8_t>(17 + r.below(5));
  const target_hll_type T = static_cast<target_hll_type>(r.below(3));
  const uint64_t limit = (3ULL << (lg_k - 3)) / 4;                       // promotion to HLL mode above this many coupons
  const uint64_t n = 6200 + r.below(std::min<uint64_t>(limit, 22000) - 6200 - 200);
  HllState st(hll_sketch(lg_k, T), r.chance(0.15), lg_k);
  for (uint64_t i = 0; i < n; ++i) {
    Val v; v.kind = V_U64; v.u = r.next();
    // a share of inputs with a large register value: their coupons carry high bits above the 26 key bits
    st.sk.update(v.u); st.inputs.push_back(v);
  }
  return st;
}
inline std::string write_hll(const hll_sketch& s, bool compact, bool stream) {
  if (stream) { std::ostringstream os; if (compact) s.serialize_compact(os); else s.serialize_updatable(os); return os.str(); }
  return to_str(compact ? s.serialize_compact() : s.serialize_updatable());
}
inline hll_sketch read_hll(const std::string& img, bool stream) {
  if (stream) { std::istringstream is(img); return hll_sketch::deserialize(is); }
  return hll_sketch::deserialize(img.data(), img.size());
}
inline std::string readout_hll(const hll_sketch& s) {
  J j; j.put("family", std::string("hll"));
  j.put("lg_k", s.get_lg_config_k()).put("target_type", int32_t(s.get_target_type())).put("is_empty", s.is_empty())
   .put("q_estimate", s.get_estimate()).put("q_composite_estimate", s.get_composite_estimate())
   .put("q_lower_bound_2", s.get_lower_bound(2)).put("q_upper_bound_2", s.get_upper_bound(2));
  // content: registers / coupons as seen through an HLL_8 updatable image decoded by the independent decoder
  const hll_sketch s8(s, HLL_8);
  const auto img = s8.serialize_updatable();
  Hll d = decode_hll(img.data(), img.size(), false);
  j.put("mode", int32_t(d.mode)).put("out_of_order", d.ooo);
  // (an out-of-order sketch estimates from the registers, and its accumulators depend on how the union rebuilt them)
  if (d.mode == 2 && !d.ooo) j.put("hip_accum", d.hip).put("kxq0", d.kxq0).put("kxq1", d.kxq1).put("num_at_cur_min", d.num_at_cur_min);
  std::vector<uint32_t> cp = d.coupons; std::sort(cp.begin(), cp.end());
  j.arr("coupons_sorted", cp);
  std::vector<uint32_t> regs(d.regs.begin(), d.regs.end());
  j.arr("registers", regs);
  return j.done();
}
inline uint32_t ref_coupon(const Val& v) {
  const H128 h = v.ref_hash(9001);
  unsigned lz = h.h2 == 0 ? 64 : __builtin_clzll(h.h2);
  const uint32_t value = (lz > 62 ? 62 : lz) + 1;
  return (value << 26) | uint32_t(h.h1 & 0x3ffffff);
}
inline void decode_check_hll(const HllState& st, const std::string& img, const std::string& ctx) {
  const hll_sketch& s = st.sk;
  Hll d = decode_hll(img.data(), img.size(), st.compact);
  VF_CHECK(d.lg_k == s.get_lg_config_k(), "hll|image-vs-api|lg-k", ctx);
  VF_CHECK(d.tgt == int(s.get_target_type()), "hll|image-vs-api|target-type-bits", ctx + " stored=" + std::to_string(d.tgt));
  VF_CHECK(d.empty == s.is_empty(), "hll|image-vs-api|empty-flag", ctx);
  // model
  std::set<uint32_t> cps;
  for (const Val& v : st.inputs) cps.insert(ref_coupon(v));
  const uint32_t k = 1u << d.lg_k;
  if (d.mode != 2) {
    std::set<uint32_t> got(d.coupons.begin(), d.coupons.end());
    VF_CHECK(got.size() == d.coupons.size(), "hll|image|duplicate-coupon", ctx);
    VF_CHECK(got == cps, "hll|image-vs-reference|coupon-set", ctx + " stored=" + std::to_string(got.size()) + " reference=" + std::to_string(cps.size()));
    VF_CHECK(!d.ooo || d.mode == 1, "hll|image|out-of-order-flag-in-list-mode", ctx);
    count(d.mode == 0 ? "hll_list" : "hll_set");
    if (d.set_probe_checked) { count("hll_set_updatable_probe_sequence_checked"); if (d.lg_arr >= 14) count(std::string("hll_set_updatable_lgarr_ge_14_hll") + (d.tgt == 0 ? "4" : d.tgt == 1 ? "6" : "8")); }
  } else {
    std::vector<uint8_t> want(k, 0);
    for (uint32_t cp : cps) { const uint32_t slot = cp & (k - 1); const uint8_t val = uint8_t(cp >> 26); if (val > want[slot]) want[slot] = val; }
    if (d.regs != want) {
      size_t i = 0; while (i < k && d.regs[i] == want[i]) ++i;
      checked(); fail("hll|image-vs-reference|registers", ctx + " first differing slot " + std::to_string(i) + " stored=" + std::to_string(d.regs[i]) + " reference=" + std::to_string(want[i]));
    } else checked();
    uint32_t at_min = 0; uint8_t mn = 255; double kxq0 = 0, kxq1 = 0;
    for (uint8_t v : d.regs) { if (v < mn) mn = v; }
    for (uint8_t v : d.regs) { if (v == d.cur_min) ++at_min; if (v < 32) kxq0 += std::ldexp(1.0, -int(v)); else kxq1 += std::ldexp(1.0, -int(v)); }
    if (d.tgt == 0) VF_CHECK(d.cur_min == mn, "hll|image|hll4-cur-min-vs-registers", ctx + " cur_min=" + std::to_string(d.cur_min) + " min=" + std::to_string(mn));
    VF_CHECK(d.num_at_cur_min == at_min, "hll|image|num-at-cur-min-vs-registers", ctx + " stored=" + std::to_string(d.num_at_cur_min) + " counted=" + std::to_string(at_min));
    VF_CHECK(std::fabs(d.kxq0 - kxq0) <= 1e-9 * kxq0 + 1e-12 && std::fabs(d.kxq1 - kxq1) <= 1e-9 * kxq1 + 1e-300, "hll|image|kxq-vs-registers", ctx + " kxq0=" + str(d.kxq0) + " want=" + str(kxq0) + " kxq1=" + str(d.kxq1) + " want=" + str(kxq1));
    if (!d.ooo) VF_CHECK(d.hip == s.get_estimate(), "hll|image-vs-api|hip-accumulator-vs-estimate", ctx + " hip=" + str(d.hip) + " est=" + str(s.get_estimate()));
    count(std::string("hll_hll") + (d.tgt == 0 ? "4" : d.tgt == 1 ? "6" : "8") + (d.compact ? "_compact" : "_updatable"));
    if (d.aux_count > 0) count("hll4_with_exceptions");
    if (d.cur_min > 0) count("hll4_cur_min_positive");
    if (d.ooo) count("hll_out_of_order");
  }
  if (d.full_size) count("hll_full_size_flag");
  sig(mix64(mix64(d.mode_byte, d.lg_k), mix64(cps.size(), d.flags)));
}
inline void register_hll() {
  Family f; f.name = "hll"; f.group = 1; f.nvariants = 48;
  f.build = [](int v, Rng& r, bool small) { HllState st = gen_hll(v, r, small); return Built{write_hll(st.sk, st.compact, false), readout_hll(st.sk)}; };
  f.read = [](const std::string& img, bool stream, int) { return readout_hll(read_hll(img, stream)); };
  f.decode_case = [](int v, Rng& r, bool small) {
    // generated cases only: large SET-mode tables (>= 2^14 slots need lg_k >= 17 and more than 6144 coupons while still below the
    // SET->HLL promotion at 3/4 * 2^(lg_k-3)); the probe stride then depends on the masking of the 26 key bits
    const bool big_set = r.chance(0.1);
    HllState st = big_set ? gen_hll_big_set(r) : gen_hll(v, r, small);
    if (big_set) count("hll_big_set_states");
    const std::string ctx = "variant=" + std::to_string(v) + " lg_k=" + std::to_string(st.lg_k) + " inputs=" + std::to_string(st.inputs.size()) + (st.compact ? " compact" : " updatable");
    const std::string b = write_hll(st.sk, st.compact, false), s = write_hll(st.sk, st.compact, true);
    // (serialize_updatable() takes no header; the compact writer is checked for every state, whatever image kind the case decodes)
    check_header_variants("hll", to_str(st.sk.serialize_compact()), [&](unsigned h) { return st.sk.serialize_compact(h); }, ctx);
    decode_check_hll(st, b, ctx + " path=bytes");
    if (s != b) { count("hll_paths_differ"); decode_check_hll(st, s, ctx + " path=stream"); }
    count("decoded_hll");
  };
  families().push_back(f);
}

// =================================================================== CPC
struct CpcState { cpc_sketch sk; uint64_t seed; std::vector<Val> inputs; uint8_t lg_k; bool merged; };
inline void cpc_feed(cpc_sketch& s, std::vector<Val>& in, Rng& r, uint64_t n) {
  for (uint64_t i = 0; i < n; ++i) { Val v = gen_val(r, 1ULL << 40); apply_update(s, v); if (!v.ignored()) in.push_back(v); }
}
inline CpcState gen_cpc(int variant, Rng& r, bool small) {
  const int flavor = variant % 6;
  const uint64_t seed = seed_for(variant);
  const uint8_t lg_k = static_cast<uint8_t>(small ? 4 + r.below(6) : 4 + r.below(10));
  const uint64_t k = 1ULL << lg_k;
  uint64_t n = 0;
  switch (flavor) {
    case 0: n = 0; break;
    case 1: n = 1 + r.below(std::max<uint64_t>(1, (3 * k) / 32)); break;      // sparse
    case 2: n = (3 * k) / 32 + 1 + r.below(k / 3 + 1); break;                   // hybrid
    case 3: n = k / 2 + r.below(2 * k); break;                                  // pinned
    case 4: n = 4 * k + r.below(small ? 8 * k : 40 * k); break;                 // sliding
    default: n = 0; break;
  }
  if (flavor == 5) {
    cpc_union un(lg_k, seed);
    std::vector<Val> in;
    const int parts = 2 + static_cast<int>(r.below(2));
    for (int i = 0; i < parts; ++i) { cpc_sketch p(lg_k, seed); cpc_feed(p, in, r, r.below(3 * k)); un.update(p); }
    return CpcState{un.get_result(), seed, in, lg_k, true};
  }
  CpcState st{cpc_sketch(lg_k, seed), seed, {}, lg_k, false};
  cpc_feed(st.sk, st.inputs, r, n);
  return st;
}
inline std::string write_cpc(const cpc_sketch& s, bool stream) {
  if (stream) { std::ostringstream os; s.serialize(os); return os.str(); }
  return to_str(s.serialize());
}
inline cpc_sketch read_cpc(const std::string& img, bool stream, uint64_t seed) {
  if (stream) { std::istringstream is(img); return cpc_sketch::deserialize(is, seed); }
  return cpc_sketch::deserialize(img.data(), img.size(), seed);
}
inline std::string readout_cpc(const cpc_sketch& s) {
  J j; j.put("family", std::string("cpc"));
  j.put("lg_k", s.get_lg_k()).put("is_empty", s.is_empty()).put("num_coupons", s.get_num_coupons()).put("q_estimate", s.get_estimate())
   .put("q_lower_bound_2", s.get_lower_bound(2)).put("q_upper_bound_2", s.get_upper_bound(2)).put("validate", s.validate());
  // stored state as seen through a re-serialized image read by the independent decoder (the entropy-coded payload is a
  // deterministic function of the coupon matrix: its hash stands for the matrix)
  const auto img = s.serialize();
  const Cpc d = decode_cpc(img.data(), img.size());
  uint64_t ph = 0x9e37; for (size_t i = size_t(d.pre_ints) * 4; i < img.size(); ++i) ph = (ph ^ img[i]) * 0x100000001b3ULL;
  j.put("first_interesting_column", d.fic).put("has_hip", d.has_hip).put("kxp", d.kxp).put("hip_accum", d.hip)
   .put("table_num_entries", d.table_num_entries).put("payload_words", d.table_words + d.window_words).put("payload_hash", ph);
  return j.done();
}
inline void decode_check_cpc(const CpcState& st, const std::string& img, const std::string& ctx) {
  const cpc_sketch& s = st.sk;
  Cpc d = decode_cpc(img.data(), img.size());
  VF_CHECK(d.seed_hash == ref_seed_hash(st.seed), "cpc|image-vs-api|seed-hash-not-low16-of-murmur-of-seed", ctx);
  VF_CHECK(d.lg_k == s.get_lg_k(), "cpc|image-vs-api|lg-k", ctx);
  VF_CHECK((d.num_coupons == 0) == s.is_empty(), "cpc|image-vs-api|emptiness", ctx);
  VF_CHECK(d.num_coupons == s.get_num_coupons(), "cpc|image-vs-api|num-coupons", ctx + " stored=" + std::to_string(d.num_coupons) + " api=" + std::to_string(s.get_num_coupons()));
  // reference: number of distinct (row, column) pairs of the inputs
  std::set<uint32_t> rc;
  const uint32_t k = 1u << d.lg_k;
  for (const Val& v : st.inputs) {
    const H128 h = v.ref_hash(st.seed);
    unsigned col = h.h2 == 0 ? 64 : __builtin_clzll(h.h2); if (col > 63) col = 63;
    uint32_t x = (uint32_t(h.h1 & (k - 1)) << 6) | col; if (x == UINT32_MAX) x ^= 1 << 6;
    rc.insert(x);
  }
  VF_CHECK(d.num_coupons == rc.size(), "cpc|image-vs-reference|num-coupons-vs-distinct-row-col-pairs", ctx + " stored=" + std::to_string(d.num_coupons) + " reference=" + std::to_string(rc.size()));
  if (d.num_coupons > 0) VF_CHECK(d.has_hip == !st.merged, "cpc|image|hip-flag-vs-merged", ctx + " flags=" + std::to_string(d.flags));
  if (d.has_hip && d.num_coupons > 0) VF_CHECK(d.hip == s.get_estimate(), "cpc|image-vs-api|hip-accumulator-vs-estimate", ctx + " hip=" + str(d.hip) + " est=" + str(s.get_estimate()));
  if (d.has_window) VF_CHECK(d.table_num_entries <= d.num_coupons, "cpc|image|table-entries-above-coupons", ctx);
  // flavor -> which sections must be present (documented: sparse = table only; hybrid = table only (window merged into it);
  // pinned/sliding = window, table only when surprising values exist)
  const uint64_t c = d.num_coupons;
  const char* flavor = c == 0 ? "empty" : (c << 5) < 3 * uint64_t(k) ? "sparse" : (c << 1) < k ? "hybrid" : (c << 3) < 27 * uint64_t(k) ? "pinned" : "sliding";
  if (c > 0) {
    const bool windowed = (c << 1) >= k;
    VF_CHECK(d.has_window == windowed, "cpc|image|window-flag-vs-flavor", ctx + " flavor=" + flavor);
    if (!windowed) VF_CHECK(d.has_table, "cpc|image|table-flag-missing-in-sparse-or-hybrid", ctx + " flavor=" + flavor);
  }
  count(std::string("cpc_") + flavor + (st.merged ? "_merged" : ""));
  count("cpc_preints_" + std::to_string(d.pre_ints));
  sig(mix64(mix64(d.num_coupons, d.lg_k), mix64(d.flags, d.fic)));
}
inline void register_cpc() {
  Family f; f.name = "cpc"; f.group = 1; f.nvariants = 24;
  f.build = [](int v, Rng& r, bool small) { CpcState st = gen_cpc(v, r, small); return Built{write_cpc(st.sk, false), readout_cpc(st.sk)}; };
  f.read = [](const std::string& img, bool stream, int v) { return readout_cpc(read_cpc(img, stream, seed_for(v))); };
  f.decode_case = [](int v, Rng& r, bool small) {
    CpcState st = gen_cpc(v, r, small);
    const std::string ctx = "variant=" + std::to_string(v) + " lg_k=" + std::to_string(st.lg_k) + " inputs=" + std::to_string(st.inputs.size());
    const std::string b = write_cpc(st.sk, false), s = write_cpc(st.sk, true);
    check_header_variants("cpc", b, [&](unsigned h) { return st.sk.serialize(h); }, ctx);
    decode_check_cpc(st, b, ctx + " path=bytes");
    if (s != b) { count("cpc_paths_differ"); decode_check_cpc(st, s, ctx + " path=stream"); }
    count("decoded_cpc");
  };
  families().push_back(f);
}

// ------------------------------------------------------------------- CPC at exact coupon-count boundaries
// The compressor picks its encoding table from comparisons such as 4*C < 3*K; with K a power of two the boundary value C = 3K/4 is
// an integer, so "<" versus "<=" changes the written bytes (and how a baseline image is decoded) for exactly that one count.  The
// flavour boundaries 3K/32, K/2 and 27K/8 are integers too.  Recipe: update(0), update(1), ... until get_num_coupons() hits the value.
inline CpcState gen_cpc_boundary(int variant) {
  uint8_t lg_k; uint64_t num, den;
  if (variant < 9) { lg_k = static_cast<uint8_t>(4 + variant); num = 3; den = 4; }
  else { static const uint8_t lgs[] = {6, 9, 12}; lg_k = lgs[(variant - 9) / 3]; const int b = (variant - 9) % 3; num = b == 0 ? 3 : b == 1 ? 1 : 27; den = b == 0 ? 32 : b == 1 ? 2 : 8; }
  const uint64_t target = ((1ULL << lg_k) * num) / den;
  const uint64_t seed = seed_for(variant);
  CpcState st{cpc_sketch(lg_k, seed), seed, {}, lg_k, false};
  for (uint64_t i = 0; st.sk.get_num_coupons() < target; ++i) {
    Val v; v.kind = V_U64; v.u = i;
    st.sk.update(v.u); st.inputs.push_back(v);
    if (i > 100 * target + 1000) throw std::logic_error("cpc boundary recipe does not reach its coupon count");
  }
  return st;
}
inline void register_cpc_boundary() {
  Family f; f.name = "cpc_boundary"; f.group = 1; f.nvariants = 18;
  f.build = [](int v, Rng&, bool) { CpcState st = gen_cpc_boundary(v); return Built{write_cpc(st.sk, false), readout_cpc(st.sk)}; };
  f.read = [](const std::string& img, bool stream, int v) { return readout_cpc(read_cpc(img, stream, seed_for(v))); };
  f.decode_case = [](int v, Rng&, bool) {
    const int vv = v % 18;
    CpcState st = gen_cpc_boundary(vv);
    const std::string ctx = "boundary variant=" + std::to_string(vv) + " lg_k=" + std::to_string(st.lg_k) + " coupons=" + std::to_string(st.sk.get_num_coupons());
    const std::string b = write_cpc(st.sk, false), s = write_cpc(st.sk, true);
    check_header_variants("cpc", b, [&](unsigned h) { return st.sk.serialize(h); }, ctx);
    decode_check_cpc(st, b, ctx + " path=bytes");
    if (s != b) { count("cpc_paths_differ"); decode_check_cpc(st, s, ctx + " path=stream"); }
    if (4ULL * st.sk.get_num_coupons() == (3ULL << st.lg_k)) count("cpc_exactly_three_quarters_k");
    count("decoded_cpc_boundary");
  };
  families().push_back(f);
}
#endif // C10_A2

inline void register_group_a() {
#ifdef C10_A1
  register_theta(); register_tuple(); register_aod();
  for (const char* f : {"theta_compact_empty_from_java_v1.sk", "theta_compact_empty_from_java_v2.sk",
                        "theta_compact_estimation_from_java_v1.sk", "theta_compact_estimation_from_java_v2.sk"})
    shipped().push_back(Shipped{std::string("theta/test/") + f, f, "theta", [](const std::string& img, bool stream) { return readout_theta(read_theta(img, stream, DEFAULT_SEED), img, DEFAULT_SEED); }});
#endif
#ifdef C10_A2
  register_hll(); register_cpc(); register_cpc_boundary();
#endif
}

} } // namespace vf::c10
#endif
