// C19 shared driver: random lifecycle programs over a pool of live objects of one family ("Fam"
// adapter), value-semantics oracle, allocator / item / global-heap end-of-case checks.
//
// A family adapter provides (all static):
//   using Obj = ...;  struct Cfg {...};
//   static const char* name();
//   static Cfg  gen_cfg(Rng&);                         static std::string cfg_str(const Cfg&);
//   static void construct(void* mem, const Cfg&, Arena*, Rng&);      // placement-new a fresh object
//   static void mutate(Obj&, const Cfg&, Rng&, Arena* scratch);      // update(s) / union.update / set-op
//   static std::string readout(const Obj&, const Cfg&);              // full observable read-out (const calls only)
//   static void query(const Obj&, const Cfg&, Rng&);                 // other const queries, results dropped
//   static const bool HAS_MERGE_REF, HAS_MERGE_MOVE, HAS_RESET, HAS_ROUNDTRIP;
//   static void merge_ref(Obj& dst, const Obj& src, const Cfg&);     static void merge_move(Obj& dst, Obj&& src, const Cfg&);
//   static void reset(Obj&, const Cfg&);
//   static void roundtrip(void* mem, const Obj& src, const Cfg&, Arena*, Rng&);   // placement-new deserialize(serialize(src), alloc)
//   static std::string mode(const Obj&, const Cfg&);                 // coverage label of the internal mode
#ifndef VF_C19_LIFE_HPP
#define VF_C19_LIFE_HPP

#include "core.hpp"
#include "c19_alloc.hpp"
#include "c19_item.hpp"
#include <common_defs.hpp>
#include <new>
#include <sys/wait.h>

extern "C" int __sanitizer_install_malloc_and_free_hooks(void (*malloc_hook)(const volatile void*, size_t),
                                                          void (*free_hook)(const volatile void*));

namespace vf {

// ------------------------------------------------------------------ global-heap monitor
// Records blocks obtained from the global heap (malloc / operator new, seen through the sanitizer
// allocator hooks) while a library call is in flight (LibScope) and harness bookkeeping is not
// (Exempt).  Fates of such a block:
//   transient : released before the call returns                           -> evidence counter
//   returned  : survives the call, later released by the harness outside   -> evidence counter
//               any library call (return values, streams, exceptions)
//   held      : survives the call and is later released *inside* another   -> violation
//               library call (assignment, reset, destructor ...): the object kept memory that did
//               not come from the supplied allocator
//   static    : survives the call and is still live after every object of the case died (lazily
//               initialised process-lifetime tables; real leaks are LSan's job) -> evidence counter
struct HeapMon {
  struct Ent { const void* p; size_t bytes; uint32_t op; uint8_t state; };   // state 0 empty, 1 live-in-scope, 2 escaped
  static const size_t CAP = 1u << 15;
  Ent tab[CAP];
  size_t used = 0;
  int lib_depth = 0;
  bool in_hook = false;
  bool installed = false;
  uint32_t cur_op = 0;
  static const size_t SCAP = 8192;
  const void* in_scope[SCAP]; size_t n_in_scope = 0;
  struct Held { uint32_t alloc_op, free_op; size_t bytes; };
  static const size_t HCAP = 64;
  Held held[HCAP]; size_t n_held = 0;
  uint64_t transient = 0, escaped = 0, returned = 0, held_total = 0, overflow = 0;
  std::vector<std::string> op_names;   // index = op id (filled under Exempt)

  static size_t slot(const void* p) { return static_cast<size_t>(mix64(reinterpret_cast<uintptr_t>(p), 0x51)) & (CAP - 1); }
  Ent* find(const void* p) {
    size_t i = slot(p);
    for (size_t n = 0; n < CAP; ++n, i = (i + 1) & (CAP - 1)) {
      if (tab[i].state == 0) return nullptr;
      if (tab[i].p == p) return &tab[i];
    }
    return nullptr;
  }
  void insert(const void* p, size_t bytes) {
    if (used > CAP / 2) { overflow++; return; }
    size_t i = slot(p);
    while (tab[i].state != 0) i = (i + 1) & (CAP - 1);
    tab[i] = Ent{p, bytes, cur_op, 1};
    used++;
    if (n_in_scope < SCAP) in_scope[n_in_scope++] = p; else overflow++;
  }
  // linear-probing deletion with backward shift (no tombstones)
  void erase(Ent* e) {
    size_t i = static_cast<size_t>(e - tab);
    tab[i].state = 0; used--;
    size_t j = i;
    for (;;) {
      j = (j + 1) & (CAP - 1);
      if (tab[j].state == 0) break;
      const size_t k = slot(tab[j].p);
      const bool between = (i <= j) ? (i < k && k <= j) : (i < k || k <= j);
      if (between) continue;
      tab[i] = tab[j]; tab[j].state = 0; i = j;
    }
  }
};
inline HeapMon& heapmon() { static HeapMon* h = [] { Exempt e; return new HeapMon(); }(); return *h; }

inline void c19_malloc_hook(const volatile void* p, size_t sz) {
  HeapMon& h = heapmon();
  if (h.lib_depth <= 0 || exempt_depth() > 0 || h.in_hook || p == nullptr) return;
  h.in_hook = true;
  h.insert(const_cast<const void*>(p), sz);
  h.in_hook = false;
}
inline void c19_free_hook(const volatile void* p) {
  HeapMon& h = heapmon();
  if (h.used == 0 || h.in_hook || p == nullptr) return;
  h.in_hook = true;
  HeapMon::Ent* e = h.find(const_cast<const void*>(p));
  if (e) {
    if (e->state == 1) h.transient++;
    else if (h.lib_depth > 0 && exempt_depth() == 0) {
      h.held_total++;
      if (h.n_held < HeapMon::HCAP) h.held[h.n_held++] = HeapMon::Held{e->op, h.cur_op, e->bytes};
    } else h.returned++;
    h.erase(e);
  }
  h.in_hook = false;
}

inline uint32_t heap_op_id(const std::string& name) {
  Exempt e;
  HeapMon& h = heapmon();
  for (size_t i = 0; i < h.op_names.size(); ++i) if (h.op_names[i] == name) return static_cast<uint32_t>(i);
  h.op_names.push_back(name);
  return static_cast<uint32_t>(h.op_names.size() - 1);
}

// RAII: a library call (or an adapter function consisting of library calls and local temporaries) is in flight
struct LibScope {
  uint32_t saved_op;
  explicit LibScope(const char* op) {
    HeapMon& h = heapmon();
    if (!h.installed) { h.installed = true; __sanitizer_install_malloc_and_free_hooks(c19_malloc_hook, c19_free_hook); }
    c19ctx().set_op(op);
    saved_op = h.cur_op;
    const uint32_t id = heap_op_id(op);
    if (h.lib_depth == 0) h.n_in_scope = 0;
    h.cur_op = id;
    h.lib_depth++;
  }
  ~LibScope() {
    HeapMon& h = heapmon();
    h.lib_depth--;
    if (h.lib_depth == 0) {
      h.in_hook = true;
      for (size_t i = 0; i < h.n_in_scope; ++i) {
        HeapMon::Ent* e = h.find(h.in_scope[i]);
        if (e && e->state == 1) { e->state = 2; h.escaped++; }
      }
      h.n_in_scope = 0;
      h.in_hook = false;
      // report blocks that an earlier call left behind and this call released
      for (size_t i = 0; i < h.n_held; ++i) {
        Exempt ex;
        const std::string aop = h.op_names[h.held[i].alloc_op], fop = h.op_names[h.held[i].free_op];
        c19_fail("heap|global-heap-block-held-by-object",
                 std::to_string(h.held[i].bytes) + " bytes obtained from the global heap (not the supplied allocator) during '" + aop +
                 "' stayed live after the call returned and were released by the library during '" + fop + "'");
      }
      h.n_held = 0;
    }
    h.cur_op = saved_op;
  }
};

// end of case: everything died.  Whatever is still recorded was never released: process-lifetime state.
inline void heap_end_of_case() {
  HeapMon& h = heapmon();
  h.in_hook = true;
  uint64_t n = 0, bytes = 0;
  if (h.used) {
    for (size_t i = 0; i < HeapMon::CAP; ++i) if (h.tab[i].state == 1 || h.tab[i].state == 2) { n++; bytes += h.tab[i].bytes; }
    memset(h.tab, 0, sizeof h.tab); h.used = 0;
  }
  h.in_hook = false;
  Exempt e;
  count("heap.static_lifetime_blocks", n);
  count("heap.static_lifetime_bytes", bytes);
  count("heap.transient_blocks", h.transient); h.transient = 0;
  count("heap.escaped_blocks", h.escaped); h.escaped = 0;
  count("heap.returned_to_harness_blocks", h.returned); h.returned = 0;
  count("heap.held_by_object_blocks", h.held_total); h.held_total = 0;
  count("heap.table_overflow", h.overflow); h.overflow = 0;
}

// ------------------------------------------------------------------ risky-operation probe
// Operations the property promises to be safe but that a defective implementation typically answers
// with a sanitizer abort (self copy-assignment, assignment to a moved-from object) are first run in a
// forked child.  If the child dies, the parent reports a violation with a specific key, skips the
// operation and carries on with the rest of the program (instead of losing the shard to restarts).
// Returns "" if the child finished, otherwise a short stable classification of how it died;
// `report` receives the head of the child's stderr.
template<typename Fn> std::string probe_in_child(Fn&& fn, std::string& report) {
  Exempt ex;
  int p[2];
  if (pipe(p) != 0) return "";
  fflush(nullptr);
  count("probe_forks");
  const pid_t pid = fork();
  if (pid < 0) { close(p[0]); close(p[1]); return ""; }
  if (pid == 0) {
    G().out_fd = -1;                 // the child must not write records into the shard's output
    dup2(p[1], 2); close(p[0]); close(p[1]);
    --exempt_depth();
    try { fn(); } catch (...) { _exit(0); }   // exceptions are handled by the parent's own execution
    _exit(0);
  }
  close(p[1]);
  std::string err; char buf[4096]; ssize_t n;
  while ((n = read(p[0], buf, sizeof buf)) > 0) if (err.size() < 32768) err.append(buf, static_cast<size_t>(n));
  close(p[0]);
  int st = 0;
  waitpid(pid, &st, 0);
  if (WIFEXITED(st) && WEXITSTATUS(st) == 0) return "";
  report = err.substr(0, 2500);
  std::string kind;
  size_t at = err.find("ERROR: AddressSanitizer: ");
  if (at != std::string::npos) {
    at += 25;
    size_t e = at; while (e < err.size() && (isalnum(static_cast<unsigned char>(err[e])) || err[e] == '-' || err[e] == '_')) ++e;
    kind = "asan-" + err.substr(at, e - at);
  } else if ((at = err.find("runtime error: ")) != std::string::npos) {
    at += 15;
    size_t e = err.find('\n', at);
    std::string t = err.substr(at, (e == std::string::npos ? err.size() : e) - at);
    std::string k;
    for (char c : t) { if (isdigit(static_cast<unsigned char>(c))) continue; if (c == '\'' || c == '<' ) break; k += (c == ' ' ? '-' : c); if (k.size() >= 40) break; }
    while (!k.empty() && k.back() == '-') k.pop_back();
    kind = "ubsan-" + k;
  } else if (WIFSIGNALED(st)) kind = "signal-" + std::to_string(WTERMSIG(st));
  else kind = "exit-" + std::to_string(WEXITSTATUS(st));
  return kind;
}

// An operand (of a type other than the pool's, e.g. a sketch fed to a union) that was consumed by an rvalue
// merge / set-operation update must remain assignable: assign `live` to it by copy or by move (probed in a
// forked child first, throttled), require the read-out of `live`, then let `after` reset / update it further.
// Called from inside adapters (a LibScope is open); reports under the family of the program in flight.
inline std::string first_diff(const std::string& a, const std::string& b);
inline std::string dstr(double d);
template<typename Sk, typename ReadFn, typename AfterFn>
void reuse_consumed_operand(Sk& consumed, Sk& live, Rng& r, ReadFn read, AfterFn after) {
  const std::string fam = c19ctx().family;
  const bool by_copy = r.coin();
  const std::string op = by_copy ? "copy-assign" : "move-assign";
  static std::map<std::string, std::pair<uint64_t, bool>> seen;
  bool do_probe;
  { Exempt e; auto& st = seen[fam + op]; do_probe = st.second || st.first < 4 || st.first % 8 == 0; st.first++; }
  if (do_probe) {
    std::string report;
    const std::string died = probe_in_child([&] { if (by_copy) consumed = static_cast<const Sk&>(live); else consumed = std::move(live); (void)read(consumed); }, report);
    if (!died.empty()) {
      { Exempt e; seen[fam + op].second = true; }
      c19_fail("consumed-by-rvalue-merge|" + op + "-to-consumed-operand|aborts|" + died, "assigning to an operand consumed by an rvalue merge / set-operation update kills the process (forked child): " + report);
      xcount(fam + ".probe_caught_abort");
      return;
    }
  }
  const std::string want = read(live);
  if (by_copy) consumed = static_cast<const Sk&>(live); else consumed = std::move(live);
  const std::string got = read(consumed);
  checked();
  if (got != want) c19_fail("consumed-by-rvalue-merge|" + op + "-to-consumed-operand|differs-from-source", first_diff(want, got));
  after(consumed);
  xcount(fam + ".assign_to_operand_consumed_by_rvalue_merge");
}

// ------------------------------------------------------------------ pool slot
template<typename Obj> struct Slot {
  alignas(Obj) unsigned char mem[sizeof(Obj)];
  bool constructed = false;   // object lifetime is active (must be destroyed)
  bool valid = false;         // holds a value (not moved-from)
  std::string ro;             // expected read-out
  Obj& o() { return *std::launder(reinterpret_cast<Obj*>(mem)); }
  const Obj& co() const { return *std::launder(reinterpret_cast<const Obj*>(mem)); }
};

inline uint64_t hash_str(const std::string& s) {
  uint64_t h = 0x1234567;
  size_t i = 0;
  for (; i + 8 <= s.size(); i += 8) { uint64_t w; memcpy(&w, s.data() + i, 8); h = mix64(h, w); }
  for (; i < s.size(); ++i) h = mix64(h, static_cast<uint8_t>(s[i]));
  return h;
}

inline std::string first_diff(const std::string& a, const std::string& b) {
  size_t i = 0;
  while (i < a.size() && i < b.size() && a[i] == b[i]) ++i;
  const size_t from = i > 30 ? i - 30 : 0;
  return "lengths " + std::to_string(a.size()) + "/" + std::to_string(b.size()) + " first difference at " + std::to_string(i) +
         ": expected ..." + a.substr(from, 90) + "... got ..." + b.substr(from, 90) + "...";
}

// a family adapter may declare `static const bool NO_COPY_ASSIGN = true;` when the type's copy assignment
// cannot be instantiated at all (then every copy-assignment form is left out of the program)
template<typename F, typename = void> struct can_copy_assign: std::true_type {};
template<typename F> struct can_copy_assign<F, std::void_t<decltype(F::NO_COPY_ASSIGN)>>: std::false_type {};

// Self-merge x.merge(x) through an lvalue reference.  An adapter opts in with
//   static const int SELF_MERGE = SM_DOUBLES | SM_REFUSES | SM_IDEMPOTENT;
//   static SelfMergeFacts self_merge_facts(const Obj&, const Cfg&);
// SM_DOUBLES   : the sketch then describes its stream twice: every number in `doubles` doubles (relative 1e-9),
//                the string `same` (min/max, configuration) is unchanged
// SM_REFUSES   : the call throws and leaves the read-out unchanged (if it does not throw it must double)
// SM_IDEMPOTENT: set semantics, the content string `same` is unchanged
// Per-instance allocator attribution.  Every adapter provides  static Arena* arena_of(const Obj&)  (the arena of
// the allocator instance the object currently holds; units are built with -fno-access-control for this).
// `static const bool SINGLE_INSTANCE = true;` declares that operations on one object (update, query, reset,
// read-out, self-assign, self-merge, serialize) involve no other sketch-like operand and no scratch object, so
// every allocation must go through the object's own instance.  `static const bool ITEM_PAYLOAD_DOUBLE = true;`
// says the family's items are vectors / arrays of double carrying their own allocator (not attributed).
template<typename F, typename = void> struct single_instance: std::false_type {};
template<typename F> struct single_instance<F, std::void_t<decltype(F::SINGLE_INSTANCE)>>: std::true_type {};
template<typename F, typename = void> struct payload_double { static const bool value = false; };
template<typename F> struct payload_double<F, std::void_t<decltype(F::ITEM_PAYLOAD_DOUBLE)>> { static const bool value = F::ITEM_PAYLOAD_DOUBLE; };

enum { SM_NONE = 0, SM_DOUBLES = 1, SM_REFUSES = 2, SM_IDEMPOTENT = 3 };
struct SelfMergeFacts { std::vector<double> doubles; std::string same; };
template<typename F, typename = void> struct self_merge_mode { static const int value = SM_NONE; };
template<typename F> struct self_merge_mode<F, std::void_t<decltype(F::SELF_MERGE)>> { static const int value = F::SELF_MERGE; };

// ------------------------------------------------------------------ the lifecycle program
template<typename F> struct Program {
  static constexpr bool CA = can_copy_assign<F>::value;
  template<typename O> static void copy_assign(O& dst, const O& src) { if constexpr (CA) dst = src; }
  template<typename O> static void chain_assign(O& a, O& b, const O& c) { if constexpr (CA) a = b = c; }
  typedef typename F::Obj Obj;
  typedef typename F::Cfg Cfg;
  typedef Slot<Obj> S;
  Rng& r;
  Cfg cfg;
  std::string fam;
  Arena arena0{0}, arena1{1}, arena2{2};
  static constexpr bool SI = single_instance<F>::value;
  Arena* home(const S* s) { return F::arena_of(s->co()); }
  // after an operation on x alone: nothing may have been allocated through another object's allocator instance
  void own_instance_only(const TrafficSnap& snap, const Arena* own, const char* op, const Arena* also_ok = nullptr) {
    if (!SI) return;
    checked();
    int which = -99;
    const uint64_t k = snap.foreign_allocs(own, also_ok, &which);
    if (k) fail(fam + "|alloc-instance|" + op + "|allocated-through-foreign-allocator",
                std::to_string(k) + " allocate call(s) went through the allocator instance of arena " + std::to_string(which) + " although the object operated on holds arena " + std::to_string(own ? own->id : -99) + " trace=" + trace);
  }
  std::vector<std::unique_ptr<S>> pool;
  std::string trace;
  int nops_done = 0;

  explicit Program(Rng& rr): r(rr) {}

  Arena* pick_arena() { const uint64_t k = r.below(3); return k == 0 ? &arena0 : (k == 1 ? &arena1 : &arena2); }
  void cnt(const char* what) { count(fam + "." + what); }
  void tr(const std::string& s) { if (trace.size() < 1500) { trace += s; trace += ';'; } }

  std::string read(const S& s) {
    c19ctx().set_op("read-out");
    if (!SI) return F::readout(s.co(), cfg);
    const Arena* own = F::arena_of(s.co());
    TrafficSnap snap;
    std::string ro = F::readout(s.co(), cfg);
    own_instance_only(snap, own, "read-out");
    return ro;
  }

  // every valid object of the pool still has the read-out it is expected to have
  void verify_all(const char* after, const S* skip = nullptr) {
    for (size_t i = 0; i < pool.size(); ++i) {
      S& s = *pool[i];
      if (!s.constructed || !s.valid || &s == skip) continue;
      const std::string now = read(s);
      checked();
      if (now != s.ro) fail(fam + "|independence|bystander-changed-by-" + after,
                            "object #" + std::to_string(i) + " was not an operand of '" + after + "' (or is a const operand) but its read-out changed: " + first_diff(s.ro, now) + " trace=" + trace);
    }
  }

  S* new_slot() { pool.emplace_back(new S()); return pool.back().get(); }
  int find_idx(const S* s) const { for (size_t i = 0; i < pool.size(); ++i) if (pool[i].get() == s) return static_cast<int>(i); return -1; }
  void destroy(S* s, const char* why) {
    if (s->constructed) {
      cnt(s->valid ? "destroy" : "destroy_moved_from");
      tr(std::string("destroy#") + std::to_string(find_idx(s)) + (s->valid ? "" : "(moved-from)"));
      { LibScope ls(why); s->o().~Obj(); }
      s->constructed = false; s->valid = false;
    }
    const int i = find_idx(s);
    if (i >= 0) pool.erase(pool.begin() + i);
  }
  S* pick_valid(const S* not_this = nullptr, const S* nor_this = nullptr) {
    std::vector<S*> c;
    for (auto& p : pool) if (p->constructed && p->valid && p.get() != not_this && p.get() != nor_this) c.push_back(p.get());
    return c.empty() ? nullptr : c[r.below(c.size())];
  }
  S* pick_any(const S* not_this = nullptr, const S* nor_this = nullptr) {
    std::vector<S*> c;
    for (auto& p : pool) if (p->constructed && p.get() != not_this && p.get() != nor_this) c.push_back(p.get());
    return c.empty() ? nullptr : c[r.below(c.size())];
  }
  S* pick_moved_from() {
    std::vector<S*> c;
    for (auto& p : pool) if (p->constructed && !p->valid) c.push_back(p.get());
    return c.empty() ? nullptr : c[r.below(c.size())];
  }
  size_t n_valid() const { size_t n = 0; for (auto& p : pool) if (p->constructed && p->valid) ++n; return n; }

  void expect_eq(S& s, const std::string& want, const char* key, const std::string& what) {
    const std::string now = read(s);
    checked();
    if (now != want) fail(fam + "|" + key, what + ": " + first_diff(want, now) + " trace=" + trace);
    s.ro = now;
  }

  void op_construct() {
    S* s = new_slot();
    Arena* a = pick_arena();
    { LibScope ls("construct"); F::construct(s->mem, cfg, a, r); }
    s->constructed = s->valid = true;
    checked();
    if (home(s) != a) fail(fam + "|alloc-instance|construct|object-not-on-the-allocator-passed-in", "constructed with an allocator of arena " + std::to_string(a->id) + " but holds arena " + std::to_string(home(s) ? home(s)->id : -99));
    s->ro = read(*s);
    cnt("construct"); tr("new#" + std::to_string(pool.size() - 1) + "@A" + std::to_string(a->id));
  }
  void op_mutate(S* x) {
    tr("mutate#" + std::to_string(find_idx(x)));
    { const Arena* own = home(x); c19ctx().target = home(x); TrafficSnap snap; { LibScope ls("mutate"); F::mutate(x->o(), cfg, r, pick_arena()); } own_instance_only(snap, own, "update"); c19ctx().target = nullptr; }
    x->ro = read(*x);
    cnt("mutate"); count(fam + ".mode_" + F::mode(x->co(), cfg));
    verify_all("mutate", x);
  }
  void op_query(S* x) {
    tr("query#" + std::to_string(find_idx(x)));
    { const Arena* own = home(x); TrafficSnap snap; { LibScope ls("query"); F::query(x->co(), cfg, r); } own_instance_only(snap, own, "query"); }
    cnt("query");
    verify_all("query");
  }
  void pin_library_rng(uint64_t seed) {
    datasketches::random_utils::rand.seed(static_cast<std::mt19937_64::result_type>(seed));
    datasketches::random_utils::random_bit.seed(seed ^ 0x9e3779b97f4a7c15ULL);
  }
  // A copy (or move target vs. a saved copy of the former source) must also BEHAVE like its source: the same
  // short operation sequence (reset where offered, updates with identical inputs and pinned library randomness,
  // merge with the same operand, trim/compress through mutate, serialization through the read-out) is run on
  // both objects and the read-outs must still agree.  This reaches configuration fields no getter exposes.
  bool want_twin() { return r.chance(0.4); }
  void twin(S* a, S* b, const char* after) {
    const uint64_t seed = r.next();
    S* operand = F::HAS_MERGE_REF ? pick_valid(a, b) : nullptr;
    tr(std::string("twin#") + std::to_string(find_idx(a)) + "~#" + std::to_string(find_idx(b)));
    std::string steps;
    for (S* s : {a, b}) {
      Rng t(seed);
      pin_library_rng(seed);
      steps.clear();
      LibScope ls("twin-sequence");
      if (F::HAS_RESET && t.chance(0.6)) { F::reset(s->o(), cfg); steps += "reset,"; }
      c19ctx().target = home(s);
      F::mutate(s->o(), cfg, t, &arena0); steps += "mutate,";
      if (operand && t.coin()) { F::merge_ref(s->o(), operand->co(), cfg); steps += "merge,"; }
      c19ctx().target = home(s);
      if (t.chance(0.3)) { F::mutate(s->o(), cfg, t, &arena0); steps += "mutate,"; }
      c19ctx().target = nullptr;
    }
    const std::string ra = read(*a), rb = read(*b);
    checked();
    if (ra != rb) fail(fam + "|twin|diverged-after-" + after,
                       std::string("objects that were equal after ") + after + " were given the same operations (" + steps + ") with the same inputs and pinned library randomness and now differ: " + first_diff(ra, rb) + " trace=" + trace);
    a->ro = ra; b->ro = rb;
    { std::string op = after; std::replace(op.begin(), op.end(), '-', '_'); count(fam + ".twin_sequence_after_" + op); }
    pin_library_rng(r.next());
  }
  // saved copy of an object that is about to be moved from (nullptr if no twin check this time)
  S* clone_for_twin(S* x) {
    if (!want_twin()) return nullptr;
    S* c = new_slot();
    { LibScope ls("copy-construct"); new (c->mem) Obj(x->co()); }
    c->constructed = c->valid = true;
    c->ro = x->ro;
    return c;
  }
  void op_copy_ctor(S* x) {
    S* y = new_slot();
    tr("copy-ctor#" + std::to_string(find_idx(x)) + "->#" + std::to_string(pool.size() - 1));
    { LibScope ls("copy-construct"); new (y->mem) Obj(x->co()); }
    y->constructed = y->valid = true;
    expect_eq(*y, x->ro, "copy-ctor|copy-differs-from-source", "read-out of the copy differs from the source's");
    cnt("copy_ctor"); count(fam + ".copy_ctor_in_mode_" + F::mode(x->co(), cfg));
    if (want_twin()) twin(x, y, "copy-construct");
    verify_all("copy-construct");
  }
  // what happens to an object that has just been moved from
  // from_merge: x was consumed as the rvalue operand of a merge -- it must stay destructible, assignable
  // (copy and move, from an object of the same or another configuration) and usable afterwards
  void dispose_moved_from(S* x, int depth = 0, bool from_merge = false) {
    x->valid = false; x->ro.clear();
    const uint64_t c = from_merge ? 2 + r.below(8) : r.below(10);   // consumed merge operands are mostly assigned to
    if (c < 4 || depth > 1) { destroy(x, "destroy-moved-from"); return; }
    if (c < 6) { cnt("moved_from_left_in_pool"); return; }          // later ops may assign to it or destroy it
    S* z = pick_valid(x);
    if (!z) { destroy(x, "destroy-moved-from"); return; }
    if (c < 8 && !CA) { destroy(x, "destroy-moved-from"); return; }
    if (c < 8) {
      tr("copy-assign-to-moved-from#" + std::to_string(find_idx(x)) + "=#" + std::to_string(find_idx(z)));
      if (!probe("moved-from|copy-assign-to-moved-from", [&] { copy_assign(x->o(), z->co()); (void)F::readout(x->co(), cfg); })) { destroy(x, "destroy-moved-from"); return; }
      { LibScope ls("copy-assign-to-moved-from"); copy_assign(x->o(), z->co()); }
      x->valid = true;
      expect_eq(*x, z->ro, "moved-from|copy-assign-to-moved-from-differs", "object revived by copy assignment differs from the source");
      cnt("copy_assign_to_moved_from");
      if (from_merge) cnt("assign_to_operand_consumed_by_rvalue_merge");
      verify_all("copy-assign-to-moved-from");
      if (from_merge && r.coin()) op_mutate(x);
    } else {
      tr("move-assign-to-moved-from#" + std::to_string(find_idx(x)) + "=#" + std::to_string(find_idx(z)));
      const std::string want = z->ro;
      if (!probe("moved-from|move-assign-to-moved-from", [&] { x->o() = std::move(z->o()); (void)F::readout(x->co(), cfg); })) { destroy(x, "destroy-moved-from"); return; }
      { LibScope ls("move-assign-to-moved-from"); x->o() = std::move(z->o()); }
      x->valid = true;
      expect_eq(*x, want, "moved-from|move-assign-to-moved-from-differs", "object revived by move assignment differs from the source's former state");
      cnt("move_assign_to_moved_from");
      if (from_merge) cnt("assign_to_operand_consumed_by_rvalue_merge");
      dispose_moved_from(z, depth + 1);
      verify_all("move-assign-to-moved-from");
      if (from_merge && find_idx(x) >= 0 && x->valid && r.coin()) op_mutate(x);   // x may have been recycled while z was disposed of
    }
  }
  void op_move_ctor(S* x) {
    S* y = new_slot();
    tr("move-ctor#" + std::to_string(find_idx(x)) + "->#" + std::to_string(pool.size() - 1));
    const std::string want = x->ro;
    count(fam + ".move_ctor_in_mode_" + F::mode(x->co(), cfg));
    S* saved = clone_for_twin(x);
    { LibScope ls("move-construct"); new (y->mem) Obj(std::move(x->o())); }
    y->constructed = y->valid = true;
    expect_eq(*y, want, "move-ctor|target-differs-from-former-source", "move-constructed object does not have the source's former read-out");
    cnt("move_ctor");
    x->valid = false; x->ro.clear();
    if (saved) { twin(y, saved, "move-construct"); destroy(saved, "destroy"); }   // before the source is recycled
    dispose_moved_from(x);
    verify_all("move-construct");
  }
  void op_copy_assign(S* x, S* y) {   // x = y
    tr("copy-assign#" + std::to_string(find_idx(x)) + "=#" + std::to_string(find_idx(y)));
    const bool was_valid = x->valid;
    if (!was_valid && !probe("moved-from|copy-assign-to-moved-from", [&] { copy_assign(x->o(), y->co()); (void)F::readout(x->co(), cfg); })) { destroy(x, "destroy-moved-from"); return; }
    { LibScope ls(was_valid ? "copy-assign" : "copy-assign-to-moved-from"); copy_assign(x->o(), y->co()); }
    x->valid = true;
    expect_eq(*x, y->ro, "copy-assign|target-differs-from-source", "after x = y the read-out of x differs from y's");
    cnt(was_valid ? "copy_assign" : "copy_assign_to_moved_from");
    if (want_twin()) twin(x, y, "copy-assign");
    verify_all("copy-assign");
  }
  void op_move_assign(S* x, S* y) {   // x = std::move(y)
    tr("move-assign#" + std::to_string(find_idx(x)) + "=#" + std::to_string(find_idx(y)));
    const std::string want = y->ro;
    const bool was_valid = x->valid;
    if (!was_valid && !probe("moved-from|move-assign-to-moved-from", [&] { x->o() = std::move(y->o()); (void)F::readout(x->co(), cfg); })) { destroy(x, "destroy-moved-from"); return; }
    S* saved = clone_for_twin(y);
    { LibScope ls(was_valid ? "move-assign" : "move-assign-to-moved-from"); x->o() = std::move(y->o()); }
    x->valid = true;
    expect_eq(*x, want, "move-assign|target-differs-from-former-source", "after x = std::move(y) x does not have y's former read-out");
    cnt(was_valid ? "move_assign" : "move_assign_to_moved_from");
    y->valid = false; y->ro.clear();
    if (saved) { twin(x, saved, "move-assign"); destroy(saved, "destroy"); }   // before the source is recycled
    dispose_moved_from(y);
    verify_all("move-assign");
  }
  // run `op` (which touches only library objects, no harness state) in a child first; true = safe to do for real
  // Forking an ASan process is expensive (page tables), so per shard process only the first few
  // occurrences of each operation kind and every 8th afterwards are probed; an unprobed crash is still
  // caught, by the driver's crash attribution.  Once a kind has aborted, it is always probed.
  template<typename Fn> bool probe(const char* opkey, Fn&& op) {
    static std::map<std::string, std::pair<uint64_t, bool>> seen;
    bool do_probe;
    { Exempt e; auto& st = seen[opkey]; do_probe = st.second || st.first < 4 || st.first % 8 == 0; st.first++; }
    if (!do_probe) return true;
    std::string report;
    const std::string died = probe_in_child(op, report);
    if (died.empty()) return true;
    checked();
    fail(fam + "|" + opkey + "|aborts|" + died, std::string("the operation kills the process (run in a forked child, skipped in the parent): ") + report + " trace=" + trace);
    count(fam + ".probe_caught_abort");
    { Exempt e; seen[opkey].second = true; }
    return false;
  }
  void op_self_assign(S* x) {
    tr("self-assign#" + std::to_string(find_idx(x)));
    count(fam + ".self_assign_in_mode_" + F::mode(x->co(), cfg));
    cnt("self_assign_attempt");
    Obj& ref = x->o();
    const Obj& same = *static_cast<const Obj*>(static_cast<const void*>(x->mem));
    if (!probe("self-assign", [&] { copy_assign(ref, same); (void)F::readout(same, cfg); })) return;
    { LibScope ls("self-copy-assign"); copy_assign(ref, same); }
    expect_eq(*x, std::string(x->ro), "self-assign|state-changed", "a = a changed the read-out of a");
    cnt("self_assign");
    verify_all("self-copy-assign");
  }
  void op_chain(S* a, S* b, S* c) {   // a = b = c
    tr("chain#" + std::to_string(find_idx(a)) + "=#" + std::to_string(find_idx(b)) + "=#" + std::to_string(find_idx(c)));
    if ((!a->valid || !b->valid) && !probe("moved-from|copy-assign-to-moved-from", [&] { chain_assign(a->o(), b->o(), c->co()); (void)F::readout(a->co(), cfg); })) return;
    { LibScope ls("chain-assign"); chain_assign(a->o(), b->o(), c->co()); }
    a->valid = b->valid = true;
    expect_eq(*b, c->ro, "chain-assign|middle-differs", "after a = b = c the read-out of b differs from c's");
    expect_eq(*a, c->ro, "chain-assign|left-differs", "after a = b = c the read-out of a differs from c's");
    cnt("chain_assign");
    if (want_twin()) twin(a, c, "chain-assign");
    verify_all("chain-assign");
  }
  void op_swap(S* x, S* y) {
    tr("swap#" + std::to_string(find_idx(x)) + "<>#" + std::to_string(find_idx(y)));
    const std::string wx = y->ro, wy = x->ro;
    if (r.coin()) {
      LibScope ls("std-swap");
      using std::swap;
      swap(x->o(), y->o());
    } else {
      LibScope ls("three-move-swap");
      Obj tmp(std::move(x->o()));
      x->o() = std::move(y->o());
      y->o() = std::move(tmp);
    }
    expect_eq(*x, wx, "swap|first-differs", "after swap(x, y) x does not have y's former read-out");
    expect_eq(*y, wy, "swap|second-differs", "after swap(x, y) y does not have x's former read-out");
    cnt("swap");
    verify_all("swap");
  }
  static constexpr int SM = self_merge_mode<F>::value;
  template<typename FF = F> SelfMergeFacts sm_facts(const Obj& o) { if constexpr (self_merge_mode<FF>::value != SM_NONE) return FF::self_merge_facts(o, cfg); else return SelfMergeFacts(); }
  void op_self_merge(S* x) {
    if constexpr (SM == SM_NONE) { op_mutate(x); return; }
    tr("self-merge#" + std::to_string(find_idx(x)));
    count(fam + ".self_merge_in_mode_" + F::mode(x->co(), cfg));
    cnt("self_merge_attempt");
    Obj& ref = x->o();
    const Obj& same = *static_cast<const Obj*>(static_cast<const void*>(x->mem));
    if (!probe("self-merge", [&] { try { F::merge_ref(ref, same, cfg); } catch (const std::exception&) {} (void)F::readout(same, cfg); })) return;
    const SelfMergeFacts before = sm_facts(same);
    bool threw = false; std::string what;
    { const Arena* own = home(x); TrafficSnap snap; { LibScope ls("self-merge"); try { F::merge_ref(ref, same, cfg); } catch (const std::exception& e) { Exempt ex; threw = true; what = e.what(); } } own_instance_only(snap, own, "self-merge"); }
    const std::string ro_before = x->ro;
    if (threw) {
      cnt("self_merge_refused");
      checked();
      if (SM != SM_REFUSES) fail(fam + "|self-merge|throws", "x.merge(x) threw '" + what + "' trace=" + trace);
      // a refusal must leave the object as it was; after an unexpected exception the object is only required to die cleanly
      if (SM == SM_REFUSES) expect_eq(*x, ro_before, "self-merge|refused-but-state-changed", "x.merge(x) threw but changed x");
      else { destroy(x, "destroy"); verify_all("self-merge"); return; }
    } else if (SM == SM_IDEMPOTENT) {
      // compared on the adapter's `same` facts (the content), not on the full read-out: cached counters may be refreshed
      x->ro = read(*x);
      const SelfMergeFacts after = sm_facts(same);
      checked();
      if (after.same != before.same) fail(fam + "|self-merge|set-operation-with-itself-changed-state", "combining a set-like object with itself changed its content: " + first_diff(before.same, after.same) + " trace=" + trace);
    } else {
      x->ro = read(*x);   // reads every retained item: dead / moved-from items are reported by the item registry
      const SelfMergeFacts after = sm_facts(same);
      checked();
      if (after.same != before.same) fail(fam + "|self-merge|invariant-facts-changed", "x.merge(x): expected unchanged '" + before.same + "' got '" + after.same + "' trace=" + trace);
      for (size_t i = 0; i < before.doubles.size() && i < after.doubles.size(); ++i) {
        checked();
        const double want = 2 * before.doubles[i];
        if (std::fabs(after.doubles[i] - want) > 1e-9 * std::max(1.0, std::fabs(want)))
          fail(fam + "|self-merge|not-stream-twice", "x.merge(x): quantity #" + std::to_string(i) + " was " + dstr(before.doubles[i]) + " and is " + dstr(after.doubles[i]) + " instead of twice that, trace=" + trace);
      }
    }
    cnt("self_merge");
    verify_all("self-merge", x);
  }
  void op_merge_ref(S* x, S* y) {
    tr("merge#" + std::to_string(find_idx(x)) + "<-#" + std::to_string(find_idx(y)));
    {
      const Arena* ax = home(x); const Arena* ay = home(y);
      TrafficSnap snap;
      c19ctx().forbidden = ax != ay ? ay : nullptr;
      { LibScope ls("merge-const-ref"); F::merge_ref(x->o(), y->co(), cfg); }
      c19ctx().forbidden = nullptr;
      if (ax != ay) {
        const uint64_t al = snap.allocs(ay), de = snap.deallocs(ay);
        checked();
        if (al || de) fail(fam + "|alloc-instance|merge-const-ref|used-const-operands-allocator",
                           std::to_string(al) + " allocate and " + std::to_string(de) + " deallocate calls went through the allocator instance of the const operand (arena " + std::to_string(ay->id) + "), the target holds arena " + std::to_string(ax->id) + " trace=" + trace);
        cnt("merge_ref_operand_instance_checked");
      } else cnt("operand_same_instance_unchecked");
      own_instance_only(snap, ax, "merge-const-ref");
    }
    x->ro = read(*x);
    cnt("merge_ref"); count(fam + ".mode_" + F::mode(x->co(), cfg));
    verify_all("merge-const-ref", x);    // y (const operand) must be unchanged
  }
  void op_merge_move(S* x, S* y) {
    tr("merge-move#" + std::to_string(find_idx(x)) + "<-#" + std::to_string(find_idx(y)));
    {
      const Arena* ax = home(x); const Arena* ay = home(y);
      TrafficSnap snap;
      c19ctx().forbidden = ax != ay ? ay : nullptr;
      { LibScope ls("merge-by-move"); F::merge_move(x->o(), std::move(y->o()), cfg); }
      c19ctx().forbidden = nullptr;
      if (ax != ay) {
        const uint64_t al = snap.allocs(ay);
        checked();
        if (al) fail(fam + "|alloc-instance|merge-by-move|allocated-through-consumed-operands-allocator",
                     std::to_string(al) + " allocate calls went through the allocator instance of the rvalue operand (arena " + std::to_string(ay->id) + "), the target holds arena " + std::to_string(ax->id) + " trace=" + trace);
        cnt("merge_move_operand_instance_checked");
      } else cnt("operand_same_instance_unchecked");
    }
    x->ro = read(*x);
    cnt("merge_move"); count(fam + ".mode_" + F::mode(x->co(), cfg));
    dispose_moved_from(y, 0, true);
    verify_all("merge-by-move", x);
  }
  void op_reset(S* x) {
    tr("reset#" + std::to_string(find_idx(x)));
    { const Arena* own = home(x); TrafficSnap snap; { LibScope ls("reset"); F::reset(x->o(), cfg); } own_instance_only(snap, own, "reset"); }
    x->ro = read(*x);
    cnt("reset");
    verify_all("reset", x);
  }
  void op_roundtrip(S* x) {
    S* y = new_slot();
    Arena* a = pick_arena();
    tr("roundtrip#" + std::to_string(find_idx(x)) + "->#" + std::to_string(pool.size() - 1) + "@A" + std::to_string(a->id));
    count(fam + ".roundtrip_in_mode_" + F::mode(x->co(), cfg));
    { const Arena* own = home(x); TrafficSnap snap; { LibScope ls("serialize-deserialize"); F::roundtrip(y->mem, x->co(), cfg, a, r); } own_instance_only(snap, own, "serialize-deserialize", a); }
    y->constructed = y->valid = true;
    checked();
    if (home(y) != a) fail(fam + "|alloc-instance|deserialize|object-not-on-the-allocator-passed-in", "deserialized with an allocator of arena " + std::to_string(a->id) + " but holds arena " + std::to_string(home(y) ? home(y)->id : -99));
    y->ro = read(*y);
    cnt("roundtrip");
    verify_all("serialize-deserialize", y);
  }

  void step() {
    const size_t nv = n_valid();
    if (nv == 0 || (pool.size() < 2 && r.chance(0.7))) { if (pool.size() < 6) { op_construct(); return; } }
    S* x = pick_valid();
    if (!x) { S* m = pick_moved_from(); if (m) destroy(m, "destroy-moved-from"); return; }
    const uint64_t c = r.below(100);
    const bool room = pool.size() < 6;
    if (c < 24) op_mutate(x);
    else if (c < 28) op_self_merge(x);
    else if (c < 33) op_query(x);
    else if (c < 38) { if (room) op_construct(); else destroy(pick_any(), "destroy"); }
    else if (c < 45) { if (room) op_copy_ctor(x); else destroy(pick_any(), "destroy"); }
    else if (c < 51) { if (room) op_move_ctor(x); else destroy(pick_any(), "destroy"); }
    else if (!CA && ((c >= 51 && c < 58) || (c >= 64 && c < 72))) op_mutate(x);
    else if (c < 58) { S* t = pick_any(x); if (t) op_copy_assign(t, x); }
    else if (c < 64) { S* t = pick_any(x); if (t) op_move_assign(t, x); }
    else if (c < 68) op_self_assign(x);
    else if (c < 72) { S* b = pick_any(x); S* a = b ? pick_any(x, b) : nullptr; if (a && b) op_chain(a, b, x); }
    else if (c < 76) { S* y = pick_valid(x); if (y) op_swap(x, y); }
    else if (c < 82) { S* y = pick_valid(x); if (y && F::HAS_MERGE_REF) op_merge_ref(x, y); else op_mutate(x); }
    else if (c < 87) { S* y = pick_valid(x); if (y && F::HAS_MERGE_MOVE) op_merge_move(x, y); else op_mutate(x); }
    else if (c < 90) { if (F::HAS_RESET) op_reset(x); else op_mutate(x); }
    else if (c < 95) { if (F::HAS_ROUNDTRIP && room) op_roundtrip(x); else op_mutate(x); }
    else destroy(pick_any(), "destroy");
  }

  void run() {
    fam = F::name();
    c19ctx().family = fam;
    c19ctx().double_is_item_payload = payload_double<F>::value;
    c19ctx().target = nullptr;
    cfg = F::gen_cfg(r);
    const uint64_t s1 = r.next(), s2 = r.next();
    datasketches::random_utils::rand.seed(static_cast<std::mt19937_64::result_type>(s1));
    datasketches::random_utils::random_bit.seed(s2);
    const int nops = static_cast<int>(r.range(12, G().thorough() ? 70 : 45));
    describe(fam + " " + F::cfg_str(cfg) + " nops=" + std::to_string(nops));
    const std::string base_desc = G().cur_desc;
    const ItemStats before = item_stats();
    try {
      for (nops_done = 0; nops_done < nops; ++nops_done) { step(); G().cur_desc = base_desc; }
      // final states feed the distinct-state signature
      for (auto& p : pool) if (p->constructed && p->valid) sig(mix64(hash_str(fam), hash_str(p->ro)));
    } catch (const std::exception& e) {
      fail(fam + "|unexpected-exception", std::string("exception escaped a lifecycle operation '") + c19ctx().op + "': " + e.what() + " trace=" + trace);
    }
    // tear down in random order
    while (!pool.empty()) {
      S* s = pool[r.below(pool.size())].get();
      try {
        destroy(s, "destroy");
        verify_all("destroy");
      } catch (const std::exception& e) {
        fail(fam + "|unexpected-exception", std::string("exception escaped during tear-down: ") + e.what() + " trace=" + trace);
        if (find_idx(s) >= 0) { s->constructed = false; pool.erase(pool.begin() + find_idx(s)); }
      }
    }
    c19ctx().set_op("end-of-case");
    // allocator: nothing remains
    for (Arena* a : {&arena0, &arena1, &arena2}) {
      checked();
      if (!a->live.empty() || a->live_bytes != 0)
        fail(fam + "|alloc|blocks-live-after-last-object-died",
             std::to_string(a->live.size()) + " blocks / " + std::to_string(a->live_bytes) + " bytes still allocated in arena " + std::to_string(a->id) + " trace=" + trace);
      count("alloc.blocks", a->total_allocs); count("alloc.bytes", a->total_bytes);
    }
    {
      Arena& d = default_arena();
      checked();
      if (!d.live.empty()) {
        fail(fam + "|alloc|default-arena-blocks-live-after-last-object-died", std::to_string(d.live.size()) + " blocks still live in the default-constructed-allocator arena");
        Exempt e;
        for (auto& kv : d.live) ::operator delete(const_cast<void*>(kv.first));
        d.live.clear(); d.live_bytes = 0;
      }
      Exempt e; d.freed.clear();
    }
    // items: every construction matched by one destruction
    const size_t left = item_registry_drain();
    checked();
    if (left) fail(fam + "|item|not-destroyed", std::to_string(left) + " Item objects were constructed and never destroyed trace=" + trace);
    const ItemStats& st = item_stats();
    count("item.constructions", (st.ctor - before.ctor) + (st.copy_ctor - before.copy_ctor) + (st.move_ctor - before.move_ctor));
    count("item.destructions", st.dtor - before.dtor);
    count("item.copy_ctor", st.copy_ctor - before.copy_ctor);
    count("item.move_ctor", st.move_ctor - before.move_ctor);
    count("item.copy_assign", st.copy_assign - before.copy_assign);
    count("item.move_assign", st.move_assign - before.move_assign);
    count("item.destroyed_moved_from", st.dtor_moved_from - before.dtor_moved_from);
    count("item.move_from_moved_from", st.move_from_moved - before.move_from_moved);
    heap_end_of_case();
    if (want_sample()) sample("{\"family\":" + jstr(fam) + ",\"config\":" + jstr(F::cfg_str(cfg)) + ",\"trace\":" + jstr(trace) + "}");
  }
};

template<typename F> void run_program(Rng& r) {
  Program<F> p(r);
  p.run();
}

// small helpers for adapters --------------------------------------------------------------
template<typename Bytes> std::string bytes_hex(const Bytes& b) { return b.empty() ? std::string() : hexbytes(b.data(), b.size(), 1u << 20); }
inline std::string dstr(double d) { char b[40]; snprintf(b, sizeof b, "%.17g", d); return b; }

} // namespace vf
#endif
