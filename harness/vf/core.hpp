// Shared runtime-monitor core: deterministic case RNG, verdict recording, counters, state
// signatures, progress/death reporting.  One monitor program = one translation unit that
// defines vf_num_cases() and vf_run_case() and includes this header.
#ifndef VF_CORE_HPP
#define VF_CORE_HPP

#include <cstdint>
#include <cstdio>
#include <cstdlib>
#include <cstring>
#include <string>
#include <vector>
#include <map>
#include <set>
#include <unordered_set>
#include <sstream>
#include <iomanip>
#include <stdexcept>
#include <functional>
#include <algorithm>
#include <cmath>
#include <csignal>
#include <unistd.h>
#include <fcntl.h>
#include <sys/time.h>

extern "C" void __sanitizer_set_death_callback(void (*callback)(void));

namespace vf {

// ---------------------------------------------------------------- RNG (xoshiro256**)
struct Rng {
  uint64_t s[4];
  static uint64_t splitmix(uint64_t& x) {
    uint64_t z = (x += 0x9e3779b97f4a7c15ULL);
    z = (z ^ (z >> 30)) * 0xbf58476d1ce4e5b9ULL;
    z = (z ^ (z >> 27)) * 0x94d049bb133111ebULL;
    return z ^ (z >> 31);
  }
  explicit Rng(uint64_t seed = 1) { reseed(seed); }
  void reseed(uint64_t seed) { uint64_t x = seed; for (auto& v : s) v = splitmix(x); }
  static uint64_t rotl(uint64_t x, int k) { return (x << k) | (x >> (64 - k)); }
  uint64_t next() {
    const uint64_t r = rotl(s[1] * 5, 7) * 9;
    const uint64_t t = s[1] << 17;
    s[2] ^= s[0]; s[3] ^= s[1]; s[1] ^= s[2]; s[0] ^= s[3]; s[2] ^= t; s[3] = rotl(s[3], 45);
    return r;
  }
  uint64_t operator()() { return next(); }
  // uniform in [0, n)  (n > 0)
  uint64_t below(uint64_t n) { return n <= 1 ? 0 : next() % n; }
  // uniform in [lo, hi]
  int64_t range(int64_t lo, int64_t hi) { return lo + static_cast<int64_t>(below(static_cast<uint64_t>(hi - lo + 1))); }
  bool coin() { return next() & 1; }
  bool chance(double p) { return unit() < p; }
  double unit() { return (next() >> 11) * (1.0 / 9007199254740992.0); }
  template<typename T> const T& pick(const std::vector<T>& v) { return v[below(v.size())]; }
  template<typename T> T pick(std::initializer_list<T> l) { auto it = l.begin(); std::advance(it, below(l.size())); return *it; }
  template<typename V> void shuffle(V& v) { for (size_t i = v.size(); i > 1; --i) std::swap(v[i - 1], v[below(i)]); }
  // std URBG interface
  typedef uint64_t result_type;
  static constexpr uint64_t min() { return 0; }
  static constexpr uint64_t max() { return UINT64_MAX; }
};

inline uint64_t mix64(uint64_t a, uint64_t b) {
  uint64_t x = a ^ (b + 0x9e3779b97f4a7c15ULL + (a << 6) + (a >> 2));
  x ^= x >> 33; x *= 0xff51afd7ed558ccdULL; x ^= x >> 33; x *= 0xc4ceb9fe1a85ec53ULL; x ^= x >> 33;
  return x;
}
// bit pattern of a double (for signatures: a float->integer cast of an out-of-range value is undefined)
inline uint64_t dbits(double d) { uint64_t u; memcpy(&u, &d, 8); return u; }

// ---------------------------------------------------------------- JSON helpers
inline std::string jstr(const std::string& s) {
  std::string o = "\"";
  for (unsigned char c : s) {
    switch (c) {
      case '"': o += "\\\""; break;
      case '\\': o += "\\\\"; break;
      case '\n': o += "\\n"; break;
      case '\t': o += "\\t"; break;
      case '\r': o += "\\r"; break;
      default:
        if (c < 0x20 || c >= 0x7f) { char b[8]; snprintf(b, sizeof b, "\\u%04x", c); o += b; }
        else o += static_cast<char>(c);
    }
  }
  return o + "\"";
}

inline std::string hexbytes(const void* p, size_t n, size_t max = 256) {
  static const char* d = "0123456789abcdef";
  std::string o;
  const uint8_t* b = static_cast<const uint8_t*>(p);
  for (size_t i = 0; i < n && i < max; ++i) { o += d[b[i] >> 4]; o += d[b[i] & 15]; }
  if (n > max) o += "...";
  return o;
}

template<typename T> std::string str(const T& v) { std::ostringstream os; os << std::setprecision(17) << v; return os.str(); }

// ---------------------------------------------------------------- global run state
struct Global {
  std::string prop;
  std::string tier = "quick";
  uint64_t seed = 1;
  uint64_t shard = 0, nshards = 1;
  int64_t only_case = -1;
  uint64_t start_case = 0;
  uint64_t max_cases = 0;  // 0 = vf_num_cases
  std::string out_path;
  int out_fd = -1;
  int prog_fd = -1;
  uint64_t cur_case = 0;
  bool in_case = false;
  std::map<std::string, uint64_t> counters;
  std::unordered_set<uint64_t> sigs;
  std::vector<uint64_t> new_sigs;   // not yet appended to <out>.sigs (flushed at every tick so a crash loses at most 64 cases' worth)
  std::set<std::string> viol_keys_this_case;
  uint64_t violations = 0;
  uint64_t cases_done = 0;
  uint64_t checks = 0;
  int samples_emitted = 0;
  std::string cur_desc;   // description of the case in flight (for crash attribution)
  std::string auto_sample;
  bool thorough() const { return tier == "thorough"; }
};
inline Global& G() { static Global* g = new Global; return *g; }   // never destroyed: the death callback may run after static destructors

inline void raw_write(int fd, const std::string& s) {
  size_t off = 0;
  while (off < s.size()) {
    ssize_t w = ::write(fd, s.data() + off, s.size() - off);
    if (w <= 0) break;
    off += static_cast<size_t>(w);
  }
}
inline void emit(const std::string& line) { if (G().out_fd >= 0) raw_write(G().out_fd, line + "\n"); }

inline void count(const std::string& name, uint64_t by = 1) { G().counters[name] += by; }
inline void checked(uint64_t by = 1) { G().checks += by; }
// state signature of a non-trivial distinct case/state
inline void sig(uint64_t h) { Global& g = G(); if (g.sigs.size() < 4000000 && g.sigs.insert(h).second) g.new_sigs.push_back(h); }
inline void flush_sigs() {
  Global& g = G();
  if (g.out_path.empty() || g.new_sigs.empty()) return;
  FILE* f = fopen((g.out_path + ".sigs").c_str(), "ab");
  if (f) { fwrite(g.new_sigs.data(), 8, g.new_sigs.size(), f); fclose(f); }
  g.new_sigs.clear();
}

inline std::string counters_json() {
  std::string o = "{";
  bool first = true;
  for (auto& kv : G().counters) { if (!first) o += ","; first = false; o += jstr(kv.first) + ":" + std::to_string(kv.second); }
  return o + "}";
}

inline void flush_progress(const char* why) {
  Global& g = G();
  std::string l = std::string("{\"t\":\"progress\",\"why\":") + jstr(why) + ",\"case\":" + std::to_string(g.cur_case) +
    ",\"in_case\":" + (g.in_case ? "true" : "false") + ",\"cases_done\":" + std::to_string(g.cases_done) +
    ",\"checks\":" + std::to_string(g.checks) + ",\"nsigs\":" + std::to_string(g.sigs.size()) +
    ",\"desc\":" + jstr(g.cur_desc) + ",\"counters\":" + counters_json() + "}";
  emit(l);
}

// A violation of the property observed by an oracle.  key: stable identifier of *what* fails
// (no seeds/lengths/addresses), detail: the witness.
inline void fail(const std::string& key, const std::string& detail) {
  Global& g = G();
  if (!g.viol_keys_this_case.insert(key).second) return;  // one report per key per case
  g.violations++;
  if (g.violations > 200) return;  // cap output; count still grows
  emit(std::string("{\"t\":\"viol\",\"key\":") + jstr(g.prop + "|" + key) + ",\"case\":" + std::to_string(g.cur_case) +
       ",\"desc\":" + jstr(g.cur_desc) + ",\"detail\":" + jstr(detail) + "}");
}

#define VF_STR2(x) #x
#define VF_STR(x) VF_STR2(x)
// check a clause; on failure record a violation keyed by `key`
#define VF_CHECK(cond, key, detail) do { ::vf::checked(); if (!(cond)) ::vf::fail((key), std::string(detail) + " [" #cond " @" __FILE__ ":" VF_STR(__LINE__) "]"); } while (0)

// record a written-out sample case for the evidence file (first few per shard)
inline void sample(const std::string& json_obj) {
  Global& g = G();
  if (g.samples_emitted >= 3) return;
  g.samples_emitted++;
  emit(std::string("{\"t\":\"sample\",\"case\":") + std::to_string(g.cur_case) + ",\"v\":" + json_obj + "}");
}
inline bool want_sample() { return G().samples_emitted < 3; }
inline void describe(const std::string& d) { G().cur_desc = d; }

// expect that f throws (any std::exception); returns true if it threw
template<typename F> bool throws(F&& f) {
  try { f(); } catch (const std::exception&) { return true; }
  return false;
}

inline void on_death() { flush_progress("death"); }
inline void on_sigabrt(int) { flush_progress("abort"); _exit(97); }
inline void on_timer(int) { flush_progress("timeout"); _exit(98); }

inline void arm_timer(unsigned secs) {
  struct itimerval it; memset(&it, 0, sizeof it);
  it.it_value.tv_sec = secs;
  setitimer(ITIMER_VIRTUAL, &it, nullptr);
}

} // namespace vf

// ---- to be provided by each monitor -------------------------------------------------
namespace vf {
uint64_t num_cases(bool thorough);                      // number of cases for the tier
void run_case(uint64_t case_idx, Rng& rng);             // run one generated case
const char* property_id();
unsigned case_timeout_s();                              // CPU seconds per case before "hang"
void final_report();                                    // optional end-of-shard statistics (may call fail)
}

#ifndef VF_NO_MAIN
int main(int argc, char** argv) {
  using namespace vf;
  Global& g = G();
  g.prop = property_id();
  for (int i = 1; i < argc; ++i) {
    std::string a = argv[i];
    auto val = [&]() -> std::string { if (i + 1 >= argc) { fprintf(stderr, "missing value for %s\n", a.c_str()); exit(2); } return argv[++i]; };
    if (a == "--tier") g.tier = val();
    else if (a == "--seed") g.seed = strtoull(val().c_str(), nullptr, 10);
    else if (a == "--shard") g.shard = strtoull(val().c_str(), nullptr, 10);
    else if (a == "--nshards") g.nshards = strtoull(val().c_str(), nullptr, 10);
    else if (a == "--case") g.only_case = strtoll(val().c_str(), nullptr, 10);
    else if (a == "--start") g.start_case = strtoull(val().c_str(), nullptr, 10);
    else if (a == "--max-cases") g.max_cases = strtoull(val().c_str(), nullptr, 10);
    else if (a == "--out") g.out_path = val();
    else { fprintf(stderr, "unknown arg %s\n", a.c_str()); return 2; }
  }
  if (g.out_path.empty()) g.out_fd = 1;
  else g.out_fd = ::open(g.out_path.c_str(), O_WRONLY | O_CREAT | O_APPEND, 0644);
  if (g.out_fd < 0) { perror("open out"); return 2; }
  __sanitizer_set_death_callback(on_death);
  signal(SIGABRT, on_sigabrt);
  signal(SIGVTALRM, on_timer);

  uint64_t n = num_cases(g.thorough());
  if (g.max_cases && g.max_cases < n) n = g.max_cases;
  const unsigned tmo = case_timeout_s();
  for (uint64_t c = 0; c < n; ++c) {
    if (g.only_case >= 0) { if (c != static_cast<uint64_t>(g.only_case)) continue; }
    else { if (c % g.nshards != g.shard) continue; if (c < g.start_case) continue; }
    g.cur_case = c; g.in_case = true; g.cur_desc.clear(); g.viol_keys_this_case.clear();
    if ((g.cases_done & 63) == 0) { flush_progress("tick"); flush_sigs(); }
    arm_timer(tmo);
    Rng rng(mix64(mix64(g.seed, 0x5eedULL), c));
    try {
      run_case(c, rng);
    } catch (const std::exception& e) {
      fail(std::string("harness|unexpected-exception"), std::string("unexpected exception escaped the case: ") + e.what());
    }
    arm_timer(0);
    g.in_case = false;
    g.cases_done++;
    if (g.samples_emitted == 0 && g.auto_sample.empty() && !g.cur_desc.empty()) g.auto_sample = g.cur_desc;
  }
  g.viol_keys_this_case.clear();
  if (g.samples_emitted == 0 && !g.auto_sample.empty()) sample("{\"case_description\":" + jstr(g.auto_sample) + "}");   // monitor wrote no sample itself
  g.cur_desc = "final_report";
  try { final_report(); } catch (const std::exception& e) { fail("harness|final-report-exception", e.what()); }
  // signatures
  flush_sigs();
  emit(std::string("{\"t\":\"done\",\"cases_done\":") + std::to_string(g.cases_done) + ",\"checks\":" + std::to_string(g.checks) +
       ",\"violations\":" + std::to_string(g.violations) + ",\"nsigs\":" + std::to_string(g.sigs.size()) +
       ",\"counters\":" + counters_json() + "}");
  return 0;
}
#endif

#endif
