// C19 shared helper: instrumented item / summary type.
//
// `vf::Item` carries a 64-bit id and a heap payload (global operator new, so leaks and
// use-after-destroy are visible to ASan/LSan as well).  A global registry of live object addresses
// detects, with key "<family>|item|...":
//   construct-on-live        constructor runs on an address that already holds a live Item
//   destroy-of-dead          destructor runs on an address that does not hold a live Item (double destroy)
//   copy-from-dead / move-from-dead / assign-to-dead / assign-from-dead
//   use-of-dead              comparison / hash / id() / serialization of a non-live object
//   moved-from-used-as-value copy / comparison / hash / id() / serialization of a moved-from object
//   payload-corrupt          heap payload does not match the id
//   storage-released-without-destruction   a tracked block is deallocated while Items inside it are live
//   not-destroyed            (driver, end of case) objects still registered after everything died
// Moving from a moved-from object, assigning to one and destroying one are legal and only counted.
// No default constructor on purpose: the library must never need to invent an item.
#ifndef VF_C19_ITEM_HPP
#define VF_C19_ITEM_HPP

#include "c19_alloc.hpp"
#include <unordered_set>
#include <istream>
#include <ostream>

namespace vf {

struct ItemStats {
  uint64_t ctor = 0, copy_ctor = 0, move_ctor = 0, copy_assign = 0, move_assign = 0, dtor = 0, dtor_moved_from = 0,
           move_from_moved = 0, compares = 0, hashes = 0;
};
inline ItemStats& item_stats() { static ItemStats s; return s; }

class Item;
inline std::set<const Item*>& item_live() { static std::set<const Item*> s; return s; }

class Item {
  static const uint64_t MOVED_ID = 0xdeadbeefdeadbeefULL;
  static const uint32_t SALT = 0x5ca1ab1eU;
  uint64_t id_;
  uint32_t* payload_;   // 1 + id % 3 words, each == low32(id) ^ SALT
  bool moved_;

  static uint32_t* make_payload(uint64_t id) {
    Exempt e;
    const size_t n = 1 + id % 3;
    uint32_t* p = new uint32_t[n];
    for (size_t i = 0; i < n; ++i) p[i] = static_cast<uint32_t>(id) ^ SALT;
    return p;
  }
  static void drop_payload(uint32_t* p) { Exempt e; delete[] p; }
  static bool is_live(const Item* p) { return item_live().count(p) != 0; }
  void enroll(const char* how) {
    Exempt e;
    checked();
    if (!item_live().insert(this).second) c19_fail("item|construct-on-live", std::string(how) + " at an address that already holds a live Item");
  }
  // `this` used as a value (read)
  bool usable(const char* how) const {
    checked();
    if (!is_live(this)) { c19_fail("item|use-of-dead", std::string(how) + " on an object that is not live (never constructed or already destroyed)"); return false; }
    if (moved_) { c19_fail("item|moved-from-used-as-value", std::string(how) + " on a moved-from object"); return false; }
    if (payload_ == nullptr || payload_[0] != (static_cast<uint32_t>(id_) ^ SALT)) { c19_fail("item|payload-corrupt", std::string(how) + ": payload does not match id " + std::to_string(id_)); return false; }
    return true;
  }
  friend void item_storage_released(const void*, size_t);
public:
  explicit Item(uint64_t id): id_(id), payload_(make_payload(id)), moved_(false) { enroll("Item(id)"); item_stats().ctor++; }
  Item(const Item& o): id_(MOVED_ID), payload_(nullptr), moved_(true) {
    enroll("copy constructor");
    item_stats().copy_ctor++;
    if (!is_live(&o)) { c19_fail("item|copy-from-dead", "copy constructor from an object that is not live"); return; }
    if (o.moved_) { c19_fail("item|moved-from-used-as-value", "copy constructor from a moved-from object"); return; }
    id_ = o.id_; payload_ = make_payload(id_); moved_ = false;
  }
  Item(Item&& o) noexcept: id_(MOVED_ID), payload_(nullptr), moved_(true) {
    enroll("move constructor");
    item_stats().move_ctor++;
    if (!is_live(&o)) { c19_fail("item|move-from-dead", "move constructor from an object that is not live"); return; }
    if (o.moved_) { item_stats().move_from_moved++; return; }
    id_ = o.id_; payload_ = o.payload_; moved_ = false;
    o.id_ = MOVED_ID; o.payload_ = nullptr; o.moved_ = true;
  }
  Item& operator=(const Item& o) {
    item_stats().copy_assign++;
    checked();
    if (!is_live(this)) { c19_fail("item|assign-to-dead", "copy assignment to an object that is not live"); return *this; }
    if (!is_live(&o)) { c19_fail("item|assign-from-dead", "copy assignment from an object that is not live"); return *this; }
    if (o.moved_) { c19_fail("item|moved-from-used-as-value", "copy assignment from a moved-from object"); return *this; }
    if (this == &o) return *this;
    uint32_t* np = make_payload(o.id_);
    drop_payload(payload_);
    payload_ = np; id_ = o.id_; moved_ = false;
    return *this;
  }
  Item& operator=(Item&& o) noexcept {
    item_stats().move_assign++;
    checked();
    if (!is_live(this)) { c19_fail("item|assign-to-dead", "move assignment to an object that is not live"); return *this; }
    if (!is_live(&o)) { c19_fail("item|assign-from-dead", "move assignment from an object that is not live"); return *this; }
    if (this == &o) return *this;
    drop_payload(payload_);
    if (o.moved_) { item_stats().move_from_moved++; payload_ = nullptr; id_ = MOVED_ID; moved_ = true; return *this; }
    payload_ = o.payload_; id_ = o.id_; moved_ = false;
    o.payload_ = nullptr; o.id_ = MOVED_ID; o.moved_ = true;
    return *this;
  }
  ~Item() {
    Exempt e;
    item_stats().dtor++;
    checked();
    if (item_live().erase(this) == 0) { c19_fail("item|destroy-of-dead", "destructor on an address that does not hold a live Item (double destruction or never constructed)"); return; }
    if (moved_) item_stats().dtor_moved_from++;
    delete[] payload_;
    payload_ = nullptr;
  }
  // value access: reports if the object is dead / moved-from; returns a sentinel then
  uint64_t id() const { return usable("id()") ? id_ : MOVED_ID; }
  bool is_moved_from_unchecked() const { return moved_; }
  bool operator<(const Item& o) const { item_stats().compares++; const bool a = usable("operator<"), b = o.usable("operator< (rhs)"); return a && b ? id_ < o.id_ : false; }
  bool operator==(const Item& o) const { item_stats().compares++; const bool a = usable("operator=="), b = o.usable("operator== (rhs)"); return a && b ? id_ == o.id_ : false; }
  bool operator!=(const Item& o) const { return !(*this == o); }
  friend std::ostream& operator<<(std::ostream& os, const Item& it) { return os << "Item(" << it.id() << ")"; }
};

// installed as storage_release_hook: Items still registered inside a block that is being returned to
// its arena were never destroyed
inline void item_storage_released(const void* p, size_t bytes) {
  auto& L = item_live();
  if (L.empty()) return;
  const Item* lo = static_cast<const Item*>(p);
  const Item* hi = reinterpret_cast<const Item*>(static_cast<const char*>(p) + bytes);
  auto it = L.lower_bound(lo);
  size_t n = 0;
  while (it != L.end() && std::less<const Item*>()(*it, hi)) {
    ++n;
    Item* dead = const_cast<Item*>(*it);
    delete[] dead->payload_; dead->payload_ = nullptr;
    it = L.erase(it);
  }
  if (n) c19_fail("item|storage-released-without-destruction", std::to_string(n) + " live Item(s) inside a block of " + std::to_string(bytes) + " bytes that is being deallocated");
}
struct ItemHookInstaller { ItemHookInstaller() { storage_release_hook() = &item_storage_released; } };
static ItemHookInstaller item_hook_installer_instance;

struct ItemHash { size_t operator()(const Item& i) const { item_stats().hashes++; return static_cast<size_t>(mix64(i.id(), 0x17)); } };
struct ItemLess { bool operator()(const Item& a, const Item& b) const { return a < b; } };

// end-of-case check helper: number of Items still registered; clears the registry (and frees what
// can still be freed so LSan is left for what the registry cannot see)
inline size_t item_registry_drain() {
  Exempt e;
  const size_t n = item_live().size();
  item_live().clear();
  return n;
}

// serde for Item: 8 bytes id + 1 byte length + that many filler bytes (variable size on purpose)
struct ItemSerde {
  static size_t fill(uint64_t id) { return id % 5; }
  size_t size_of_item(const Item& it) const { return 9 + fill(it.id()); }
  void serialize(std::ostream& os, const Item* items, unsigned num) const {
    for (unsigned i = 0; i < num; ++i) {
      const uint64_t id = items[i].id();
      const uint8_t f = static_cast<uint8_t>(fill(id));
      os.write(reinterpret_cast<const char*>(&id), 8);
      os.write(reinterpret_cast<const char*>(&f), 1);
      for (uint8_t j = 0; j < f; ++j) os.put(static_cast<char>(id >> (8 * j)));
    }
    if (!os.good()) throw std::runtime_error("ItemSerde: stream write error");
  }
  void deserialize(std::istream& is, Item* items, unsigned num) const {
    unsigned i = 0;
    try {
      for (; i < num; ++i) {
        uint64_t id = 0; uint8_t f = 0;
        is.read(reinterpret_cast<char*>(&id), 8);
        is.read(reinterpret_cast<char*>(&f), 1);
        for (uint8_t j = 0; j < f; ++j) is.get();
        if (!is.good()) throw std::runtime_error("ItemSerde: stream read error");
        new (&items[i]) Item(id);
      }
    } catch (...) {
      for (unsigned j = 0; j < i; ++j) items[j].~Item();
      throw;
    }
  }
  size_t serialize(void* ptr, size_t capacity, const Item* items, unsigned num) const {
    uint8_t* p = static_cast<uint8_t*>(ptr);
    size_t w = 0;
    for (unsigned i = 0; i < num; ++i) {
      const uint64_t id = items[i].id();
      const size_t f = fill(id);
      if (w + 9 + f > capacity) throw std::out_of_range("ItemSerde: buffer too small");
      memcpy(p + w, &id, 8); p[w + 8] = static_cast<uint8_t>(f);
      for (size_t j = 0; j < f; ++j) p[w + 9 + j] = static_cast<uint8_t>(id >> (8 * j));
      w += 9 + f;
    }
    return w;
  }
  size_t deserialize(const void* ptr, size_t capacity, Item* items, unsigned num) const {
    const uint8_t* p = static_cast<const uint8_t*>(ptr);
    size_t rd = 0;
    unsigned i = 0;
    try {
      for (; i < num; ++i) {
        if (rd + 9 > capacity) throw std::out_of_range("ItemSerde: buffer too small");
        uint64_t id; memcpy(&id, p + rd, 8);
        const size_t f = p[rd + 8];
        if (rd + 9 + f > capacity) throw std::out_of_range("ItemSerde: buffer too small");
        rd += 9 + f;
        new (&items[i]) Item(id);
      }
    } catch (...) {
      for (unsigned j = 0; j < i; ++j) items[j].~Item();
      throw;
    }
    return rd;
  }
};

// serde / hash for tstring (characters from a tracked arena).  The arena used for deserialized
// strings is the one the harness passes in (the same instance it hands to the sketch).
struct TStringSerde {
  Arena* arena;
  explicit TStringSerde(Arena* a): arena(a) {}
  size_t size_of_item(const tstring& s) const { return 4 + s.size(); }
  void serialize(std::ostream& os, const tstring* items, unsigned num) const {
    for (unsigned i = 0; i < num; ++i) {
      const uint32_t len = static_cast<uint32_t>(items[i].size());
      os.write(reinterpret_cast<const char*>(&len), 4);
      os.write(items[i].data(), len);
    }
    if (!os.good()) throw std::runtime_error("TStringSerde: stream write error");
  }
  void deserialize(std::istream& is, tstring* items, unsigned num) const {
    unsigned i = 0;
    try {
      for (; i < num; ++i) {
        uint32_t len = 0;
        is.read(reinterpret_cast<char*>(&len), 4);
        if (!is.good() || len > (1u << 20)) throw std::runtime_error("TStringSerde: stream read error");
        tstring s(len, '\0', track_alloc<char>(arena));
        is.read(&s[0], len);
        if (!is.good()) throw std::runtime_error("TStringSerde: stream read error");
        new (&items[i]) tstring(std::move(s));
      }
    } catch (...) {
      for (unsigned j = 0; j < i; ++j) items[j].~tstring();
      throw;
    }
  }
  size_t serialize(void* ptr, size_t capacity, const tstring* items, unsigned num) const {
    uint8_t* p = static_cast<uint8_t*>(ptr);
    size_t w = 0;
    for (unsigned i = 0; i < num; ++i) {
      const uint32_t len = static_cast<uint32_t>(items[i].size());
      if (w + 4 + len > capacity) throw std::out_of_range("TStringSerde: buffer too small");
      memcpy(p + w, &len, 4); memcpy(p + w + 4, items[i].data(), len);
      w += 4 + len;
    }
    return w;
  }
  size_t deserialize(const void* ptr, size_t capacity, tstring* items, unsigned num) const {
    const uint8_t* p = static_cast<const uint8_t*>(ptr);
    size_t rd = 0;
    unsigned i = 0;
    try {
      for (; i < num; ++i) {
        if (rd + 4 > capacity) throw std::out_of_range("TStringSerde: buffer too small");
        uint32_t len; memcpy(&len, p + rd, 4);
        if (rd + 4 + len > capacity) throw std::out_of_range("TStringSerde: buffer too small");
        new (&items[i]) tstring(reinterpret_cast<const char*>(p + rd + 4), len, track_alloc<char>(arena));
        rd += 4 + len;
      }
    } catch (...) {
      for (unsigned j = 0; j < i; ++j) items[j].~tstring();
      throw;
    }
    return rd;
  }
};
struct TStringHash { size_t operator()(const tstring& s) const { uint64_t h = 0x9e37; for (char c : s) h = mix64(h, static_cast<uint8_t>(c)); return static_cast<size_t>(h); } };

// item-kind traits used by the templated-family adapters
template<typename T> struct ItemKind;
template<> struct ItemKind<Item> {
  typedef ItemSerde Serde;
  typedef ItemHash Hash;
  static const char* tag() { return "item"; }
  static Item make(uint64_t id, Arena*) { return Item(id); }
  static std::string show(const Item& i) { return std::to_string(i.id()); }
  static Serde serde(Arena*) { return Serde(); }
};
template<> struct ItemKind<tstring> {
  typedef TStringSerde Serde;
  typedef TStringHash Hash;
  static const char* tag() { return "tstr"; }
  // variable length: short ones fit the small-string buffer, long ones allocate from the arena
  static tstring make(uint64_t id, Arena* a) {
    char b[32]; snprintf(b, sizeof b, "%010llu", static_cast<unsigned long long>(id));
    tstring s(b, track_alloc<char>(a));
    if (id % 3 != 0) s.append(8 + id % 23, static_cast<char>('a' + id % 26));
    return s;
  }
  static std::string show(const tstring& s) { return std::string(s.data(), s.size()); }
  static Serde serde(Arena* a) { return Serde(a); }
};

} // namespace vf
#endif
