// C10 — independent little-endian decoders for every serialized sketch family.
//
// Written ONLY from the layout documentation / layout comments of the pinned headers (baseline
// commit 70f9031): preamble size, serial version, family id, flag bit positions, seed hash, k / lg_k,
// n, item order.  Nothing here includes a library header.  All expected constants are FROZEN as
// literals so that a change which moves a field / flag / id consistently in writer AND reader is
// noticed by the monitor.
//
// A decoder throws DecodeError(key, detail) when the image does not follow the documented layout;
// the key is stable ("<family>|<clause>") and is reported by the monitor as "decode|<family>|<clause>".
#ifndef VF_C10_DECODE_HPP
#define VF_C10_DECODE_HPP

#include <cstdint>
#include <cstring>
#include <string>
#include <vector>
#include <stdexcept>
#include <type_traits>

namespace vf { namespace c10 {

struct DecodeError : std::runtime_error {
  std::string key;
  DecodeError(const std::string& k, const std::string& detail) : std::runtime_error(k + ": " + detail), key(k) {}
};

// ------------------------------------------------------------------ byte cursor (little endian)
struct Cur {
  const uint8_t* p; size_t n; size_t off; std::string fam;
  Cur(const void* bytes, size_t size, const char* family) : p(static_cast<const uint8_t*>(bytes)), n(size), off(0), fam(family) {}
  void need(size_t k, const char* what) const {
    if (k > n - off || off > n) throw DecodeError(fam + "|image-shorter-than-layout", std::string("need ") + std::to_string(k) + " bytes for " + what +
      " at offset " + std::to_string(off) + ", image size " + std::to_string(n));
  }
  uint8_t u8(const char* w = "u8") { need(1, w); return p[off++]; }
  uint16_t u16(const char* w = "u16") { need(2, w); uint16_t v = uint16_t(p[off] | (p[off + 1] << 8)); off += 2; return v; }
  uint32_t u32(const char* w = "u32") { need(4, w); uint32_t v = 0; for (int i = 3; i >= 0; --i) v = (v << 8) | p[off + i]; off += 4; return v; }
  uint64_t u64(const char* w = "u64") { need(8, w); uint64_t v = 0; for (int i = 7; i >= 0; --i) v = (v << 8) | p[off + i]; off += 8; return v; }
  float f32(const char* w = "f32") { uint32_t u = u32(w); float f; memcpy(&f, &u, 4); return f; }
  double f64(const char* w = "f64") { uint64_t u = u64(w); double d; memcpy(&d, &u, 8); return d; }
  // big endian (t-digest reference format only)
  uint16_t u16be(const char* w = "u16be") { need(2, w); uint16_t v = uint16_t((p[off] << 8) | p[off + 1]); off += 2; return v; }
  uint32_t u32be(const char* w = "u32be") { need(4, w); uint32_t v = 0; for (int i = 0; i < 4; ++i) v = (v << 8) | p[off + i]; off += 4; return v; }
  uint64_t u64be(const char* w = "u64be") { need(8, w); uint64_t v = 0; for (int i = 0; i < 8; ++i) v = (v << 8) | p[off + i]; off += 8; return v; }
  float f32be(const char* w = "f32be") { uint32_t u = u32be(w); float f; memcpy(&f, &u, 4); return f; }
  double f64be(const char* w = "f64be") { uint64_t u = u64be(w); double d; memcpy(&d, &u, 8); return d; }
  void skip(size_t k, const char* w = "skip") { need(k, w); off += k; }
  size_t left() const { return n - off; }
  void expect(bool cond, const char* clause, const std::string& detail = "") const {
    if (!cond) throw DecodeError(fam + "|" + clause, detail + " (offset " + std::to_string(off) + ", image size " + std::to_string(n) + ")");
  }
  void expect_end() const { expect(off == n, "trailing-or-missing-bytes", "decoded " + std::to_string(off) + " bytes"); }
};

// ------------------------------------------------------------------ item codecs (documented serde)
// arithmetic T: sizeof(T) raw little-endian bytes;  std::string: uint32 length + bytes
template<typename T, typename E = void> struct Item;
template<typename T> struct Item<T, typename std::enable_if<std::is_arithmetic<T>::value>::type> {
  static T rd(Cur& c) {
    c.need(sizeof(T), "item");
    uint8_t b[sizeof(T)];
    for (size_t i = 0; i < sizeof(T); ++i) b[i] = c.p[c.off + i];   // host is little endian (checked by the monitor)
    c.off += sizeof(T);
    T v; memcpy(&v, b, sizeof(T)); return v;
  }
};
template<> struct Item<std::string> {
  static std::string rd(Cur& c) {
    uint32_t len = c.u32("string length");
    c.need(len, "string bytes");
    std::string s(reinterpret_cast<const char*>(c.p + c.off), len);
    c.off += len;
    return s;
  }
};
template<typename T> std::vector<T> rd_items(Cur& c, size_t num) {
  std::vector<T> v; v.reserve(num < 1000000 ? num : 0);
  for (size_t i = 0; i < num; ++i) v.push_back(Item<T>::rd(c));
  return v;
}

static const uint64_t MAX_THETA = 0x7fffffffffffffffULL;

// =================================================================== Theta (compact)
// v3: byte0 preLongs(1|2|3) 1 serVer=3 2 type=3 3-4 unused 5 flags 6-7 seedHash | [u32 numEntries, u32 unused] | [u64 theta] | entries
// v4: byte0 preLongs(1|2) 1 serVer=4 2 type=3 3 entryBits 4 numEntriesBytes 5 flags 6-7 seedHash | [u64 theta] | numEntries (LE,
//     numEntriesBytes bytes) | deltas of the ascending entries packed MSB-first with entryBits bits each
// flags: bit0 big-endian, bit1 read-only, bit2 empty, bit3 compact, bit4 ordered
struct Theta {
  uint8_t pre_longs = 0, ser_ver = 0, type = 0, flags = 0, entry_bits = 64, num_entries_bytes = 0;
  uint16_t seed_hash = 0;
  bool empty = false, ordered = false;
  uint64_t theta = MAX_THETA;
  std::vector<uint64_t> entries;
};

inline Theta decode_theta(const void* bytes, size_t size) {
  Cur c(bytes, size, "theta");
  Theta t;
  t.pre_longs = c.u8("preamble longs");
  t.ser_ver = c.u8("serial version");
  t.type = c.u8("sketch type");
  c.expect(t.type == 3, "sketch-type-not-3", "type=" + std::to_string(t.type));
  c.expect(t.ser_ver == 3 || t.ser_ver == 4, "serial-version-not-3-or-4", "ser_ver=" + std::to_string(t.ser_ver));
  if (t.ser_ver == 3) {
    uint16_t unused = c.u16("unused");
    c.expect(unused == 0, "v3-unused-bytes-3-4-nonzero");
    t.flags = c.u8("flags");
    t.seed_hash = c.u16("seed hash");
    c.expect((t.flags & 0x01) == 0, "big-endian-flag-set");
    c.expect((t.flags & 0x02) != 0, "read-only-flag-bit1-missing", "flags=" + std::to_string(t.flags));
    c.expect((t.flags & 0x08) != 0, "compact-flag-bit3-missing", "flags=" + std::to_string(t.flags));
    c.expect((t.flags & 0xE0) == 0, "undefined-flag-bits-set", "flags=" + std::to_string(t.flags));
    t.empty = (t.flags & 0x04) != 0;
    t.ordered = (t.flags & 0x10) != 0;
    c.expect(t.pre_longs >= 1 && t.pre_longs <= 3, "v3-preamble-longs-not-1-2-3", "pre_longs=" + std::to_string(t.pre_longs));
    if (t.empty) {
      c.expect(t.pre_longs == 1, "empty-with-preamble-longs-not-1");
      c.expect_end();
      return t;
    }
    uint32_t num = 1;
    if (t.pre_longs > 1) {
      num = c.u32("num entries");
      uint32_t un = c.u32("unused");
      c.expect(un == 0, "v3-unused-u32-after-count-nonzero");
    }
    if (t.pre_longs > 2) {
      t.theta = c.u64("theta");
      c.expect(t.theta < MAX_THETA, "v3-theta-stored-though-not-estimation-mode", "theta=" + std::to_string(t.theta));
    }
    c.need(size_t(num) * 8, "entries");
    for (uint32_t i = 0; i < num; ++i) t.entries.push_back(c.u64("entry"));
    c.expect_end();
    return t;
  }
  // v4
  t.entry_bits = c.u8("entry bits");
  t.num_entries_bytes = c.u8("num entries bytes");
  t.flags = c.u8("flags");
  t.seed_hash = c.u16("seed hash");
  c.expect(t.flags == 0x1A, "v4-flags-not-compact-readonly-ordered", "flags=" + std::to_string(t.flags));
  t.ordered = true; t.empty = false;
  c.expect(t.pre_longs == 1 || t.pre_longs == 2, "v4-preamble-longs-not-1-2", "pre_longs=" + std::to_string(t.pre_longs));
  c.expect(t.entry_bits >= 1 && t.entry_bits <= 63, "v4-entry-bits-out-of-range", "entry_bits=" + std::to_string(t.entry_bits));
  c.expect(t.num_entries_bytes >= 1 && t.num_entries_bytes <= 4, "v4-num-entries-bytes-out-of-range", std::to_string(t.num_entries_bytes));
  if (t.pre_longs == 2) {
    t.theta = c.u64("theta");
    c.expect(t.theta < MAX_THETA, "v4-theta-stored-though-not-estimation-mode");
  }
  uint32_t num = 0;
  for (unsigned i = 0; i < t.num_entries_bytes; ++i) num |= uint32_t(c.u8("num entries byte")) << (8 * i);
  c.expect(num > 0, "v4-zero-entries");
  const size_t total_bits = size_t(num) * t.entry_bits;
  const size_t nbytes = (total_bits + 7) / 8;
  c.need(nbytes, "packed deltas");
  const uint8_t* d = c.p + c.off;
  size_t bitpos = 0;
  uint64_t prev = 0;
  for (uint32_t i = 0; i < num; ++i) {
    uint64_t delta = 0;
    for (unsigned b = 0; b < t.entry_bits; ++b, ++bitpos) delta = (delta << 1) | ((d[bitpos >> 3] >> (7 - (bitpos & 7))) & 1);
    prev += delta;
    t.entries.push_back(prev);
  }
  c.off += nbytes;
  c.expect_end();
  return t;
}

// =================================================================== Tuple (compact, fixed-size summary S)
// byte0 preLongs 1 serVer=3 2 family=9 3 type=1 4 unused 5 flags(as theta) 6-7 seedHash | [u32 num, u32 unused] | [u64 theta] | (u64 key, S summary)*
template<typename S> struct Tuple {
  uint8_t pre_longs = 0, ser_ver = 0, family = 0, type = 0, flags = 0;
  uint16_t seed_hash = 0;
  bool empty = false, ordered = false;
  uint64_t theta = MAX_THETA;
  std::vector<uint64_t> keys;
  std::vector<S> summaries;
};

template<typename S> Tuple<S> decode_tuple(const void* bytes, size_t size) {
  Cur c(bytes, size, "tuple");
  Tuple<S> t;
  t.pre_longs = c.u8(); t.ser_ver = c.u8(); t.family = c.u8(); t.type = c.u8();
  uint8_t unused = c.u8();
  t.flags = c.u8(); t.seed_hash = c.u16();
  c.expect(t.ser_ver == 3, "serial-version-not-3", std::to_string(t.ser_ver));
  c.expect(t.family == 9, "family-not-9", std::to_string(t.family));
  c.expect(t.type == 1, "sketch-type-not-1", std::to_string(t.type));
  c.expect(unused == 0, "unused-byte-4-nonzero");
  c.expect((t.flags & 0x01) == 0, "big-endian-flag-set");
  c.expect((t.flags & 0x02) != 0, "read-only-flag-bit1-missing", std::to_string(t.flags));
  c.expect((t.flags & 0x08) != 0, "compact-flag-bit3-missing", std::to_string(t.flags));
  c.expect((t.flags & 0xE0) == 0, "undefined-flag-bits-set", std::to_string(t.flags));
  t.empty = (t.flags & 0x04) != 0;
  t.ordered = (t.flags & 0x10) != 0;
  c.expect(t.pre_longs >= 1 && t.pre_longs <= 3, "preamble-longs-not-1-2-3", std::to_string(t.pre_longs));
  if (t.empty) { c.expect(t.pre_longs == 1, "empty-with-preamble-longs-not-1"); c.expect_end(); return t; }
  uint32_t num = 1;
  if (t.pre_longs > 1) { num = c.u32(); uint32_t un = c.u32(); c.expect(un == 0, "unused-u32-after-count-nonzero"); }
  if (t.pre_longs > 2) { t.theta = c.u64(); c.expect(t.theta < MAX_THETA, "theta-stored-though-not-estimation-mode"); }
  for (uint32_t i = 0; i < num; ++i) { t.keys.push_back(c.u64("key")); t.summaries.push_back(Item<S>::rd(c)); }
  c.expect_end();
  return t;
}

// =================================================================== Array of doubles (compact)
// byte0 preLongs=1 1 serVer=1 2 family=9 3 type=3 4 flags(bit2 empty, bit3 has entries, bit4 ordered) 5 numValues 6-7 seedHash |
// u64 theta | [u32 num, u32 unused, num keys, num*numValues doubles]
struct Aod {
  uint8_t pre_longs = 0, ser_ver = 0, family = 0, type = 0, flags = 0, num_values = 0;
  uint16_t seed_hash = 0;
  bool empty = false, ordered = false, has_entries = false;
  uint64_t theta = MAX_THETA;
  std::vector<uint64_t> keys;
  std::vector<std::vector<double>> values;
};

inline Aod decode_aod(const void* bytes, size_t size) {
  Cur c(bytes, size, "aod");
  Aod t;
  t.pre_longs = c.u8(); t.ser_ver = c.u8(); t.family = c.u8(); t.type = c.u8(); t.flags = c.u8(); t.num_values = c.u8(); t.seed_hash = c.u16();
  c.expect(t.pre_longs == 1, "preamble-longs-not-1", std::to_string(t.pre_longs));
  c.expect(t.ser_ver == 1, "serial-version-not-1", std::to_string(t.ser_ver));
  c.expect(t.family == 9, "family-not-9", std::to_string(t.family));
  c.expect(t.type == 3, "sketch-type-not-3", std::to_string(t.type));
  c.expect((t.flags & 0xE3) == 0, "undefined-flag-bits-set", std::to_string(t.flags));
  t.empty = (t.flags & 0x04) != 0;
  t.has_entries = (t.flags & 0x08) != 0;
  t.ordered = (t.flags & 0x10) != 0;
  t.theta = c.u64("theta");
  if (t.has_entries) {
    uint32_t num = c.u32("num entries");
    uint32_t un = c.u32("unused");
    c.expect(un == 0, "unused-u32-after-count-nonzero");
    c.expect(num > 0, "has-entries-flag-with-zero-entries");
    for (uint32_t i = 0; i < num; ++i) t.keys.push_back(c.u64("key"));
    for (uint32_t i = 0; i < num; ++i) { std::vector<double> v; for (unsigned j = 0; j < t.num_values; ++j) v.push_back(c.f64("value")); t.values.push_back(v); }
  }
  c.expect_end();
  return t;
}

// =================================================================== HLL
// byte0 preInts (LIST 2, SET 3, HLL 10) 1 serVer=1 2 family=7 3 lgK 4 lgArr 5 flags (4 empty, 8 compact, 16 out-of-order, 32 full size)
// 6 LIST: coupon count / HLL: curMin 7 mode: low 2 bits curMode (0 LIST,1 SET,2 HLL), next 2 bits target type (0 HLL_4, 1 HLL_6, 2 HLL_8)
// LIST: coupons from byte 8.  SET: u32 count at 8, coupons from 12.  (compact: exactly count coupons; updatable: 2^lgArr slots, 0 = empty)
// HLL: f64 hipAccum @8, f64 kxq0 @16, f64 kxq1 @24, u32 numAtCurMin @32, u32 auxCount @36, registers @40:
//   HLL_8 one byte per slot; HLL_6 6 bits per slot packed little-endian (slot i at bit 6*i), (k*3/4)+1 bytes;
//   HLL_4 two slots per byte (even slot low nibble), value = nibble + curMin, nibble 15 = exception held in the aux list that
//   follows the registers: u32 pairs (value << 26 | slot); compact: auxCount pairs; updatable: 2^lgArr ints (0 = empty)
//   (an updatable HLL_4 image without exceptions still carries an all-zero aux area of 4 << LG_AUX_ARR_INTS[lgK] bytes).
// coupon = (value << 26) | (low 26 bits of h1), value = min(clz(h2), 62) + 1
struct Hll {
  uint8_t pre_ints = 0, ser_ver = 0, family = 0, lg_k = 0, lg_arr = 0, flags = 0, byte6 = 0, mode_byte = 0;
  int mode = 0;       // 0 LIST 1 SET 2 HLL
  int tgt = 0;        // 0 HLL_4 1 HLL_6 2 HLL_8
  bool empty = false, compact = false, ooo = false, full_size = false;
  std::vector<uint32_t> coupons;          // LIST / SET: non-empty coupons in image order
  double hip = 0, kxq0 = 0, kxq1 = 0;
  uint32_t num_at_cur_min = 0, aux_count = 0;
  uint8_t cur_min = 0;
  std::vector<uint8_t> regs;              // HLL: true register values (curMin / aux resolved)
  uint32_t aux_tokens = 0;                // HLL_4: number of nibbles == 15
  bool set_probe_checked = false;         // updatable SET: probe-sequence reachability verified
};

inline uint8_t hll_lg_aux_arr_ints(uint8_t lg_k) {
  static const uint8_t t[] = {0, 2, 2, 2, 2, 2, 2, 3, 3, 3, 4, 4, 5, 5, 6, 7, 8, 9, 10, 11, 12, 13, 14, 15, 16, 17, 18};
  return t[lg_k];
}

inline Hll decode_hll(const void* bytes, size_t size, bool expect_compact) {
  Cur c(bytes, size, "hll");
  Hll h;
  h.pre_ints = c.u8(); h.ser_ver = c.u8(); h.family = c.u8(); h.lg_k = c.u8(); h.lg_arr = c.u8(); h.flags = c.u8(); h.byte6 = c.u8(); h.mode_byte = c.u8();
  c.expect(h.ser_ver == 1, "serial-version-not-1", std::to_string(h.ser_ver));
  c.expect(h.family == 7, "family-not-7", std::to_string(h.family));
  c.expect(h.lg_k >= 4 && h.lg_k <= 21, "lg-k-out-of-range", std::to_string(h.lg_k));
  c.expect((h.flags & 0xC3) == 0, "undefined-flag-bits-set", std::to_string(h.flags));
  c.expect((h.mode_byte & 0xF0) == 0, "mode-byte-high-bits-set", std::to_string(h.mode_byte));
  h.mode = h.mode_byte & 3; h.tgt = (h.mode_byte >> 2) & 3;
  c.expect(h.mode <= 2, "cur-mode-not-0-1-2");
  c.expect(h.tgt <= 2, "target-type-not-0-1-2");
  h.empty = h.flags & 4; h.compact = h.flags & 8; h.ooo = h.flags & 16; h.full_size = h.flags & 32;
  c.expect(h.compact == expect_compact, "compact-flag-bit3-wrong", std::to_string(h.flags));
  if (h.mode == 0) {
    c.expect(h.pre_ints == 2, "list-preamble-ints-not-2", std::to_string(h.pre_ints));
    const uint32_t count = h.byte6;
    c.expect(h.empty == (count == 0), "list-empty-flag-vs-count");
    c.expect(h.lg_arr == 3, "list-lg-arr-not-3", std::to_string(h.lg_arr));
    c.expect(count < 8, "list-count-not-below-8", std::to_string(count));
    if (h.compact) {
      for (uint32_t i = 0; i < count; ++i) { uint32_t cp = c.u32("coupon"); c.expect(cp != 0, "list-compact-empty-coupon"); h.coupons.push_back(cp); }
    } else {
      for (uint32_t i = 0; i < 8; ++i) { uint32_t cp = c.u32("coupon slot"); if (cp != 0) h.coupons.push_back(cp); }
      c.expect(h.coupons.size() == count, "list-count-vs-nonzero-slots", std::to_string(count) + " vs " + std::to_string(h.coupons.size()));
    }
    c.expect_end();
    return h;
  }
  if (h.mode == 1) {
    c.expect(h.pre_ints == 3, "set-preamble-ints-not-3", std::to_string(h.pre_ints));
    c.expect(h.byte6 == 0, "set-byte6-nonzero");
    c.expect(!h.empty, "set-with-empty-flag");
    const uint32_t count = c.u32("set count");
    c.expect(h.lg_arr >= 5 && h.lg_arr <= 26, "set-lg-arr-out-of-range", std::to_string(h.lg_arr));
    if (h.compact) {
      for (uint32_t i = 0; i < count; ++i) { uint32_t cp = c.u32("coupon"); c.expect(cp != 0, "set-compact-empty-coupon"); h.coupons.push_back(cp); }
    } else {
      const uint32_t slots = 1u << h.lg_arr;
      std::vector<uint32_t> table(slots);
      for (uint32_t i = 0; i < slots; ++i) { table[i] = c.u32("coupon slot"); if (table[i] != 0) h.coupons.push_back(table[i]); }
      c.expect(h.coupons.size() == count, "set-count-vs-nonzero-slots", std::to_string(count) + " vs " + std::to_string(h.coupons.size()));
      // the updatable table is an open-addressing hash set that other implementations keep updating in place: every coupon
      // must be reachable by the published probe sequence  start = coupon & (slots-1),
      // stride = ((coupon & 0x3ffffff) >> lgArr) | 1  without crossing an empty slot
      const uint32_t mask = slots - 1;
      for (uint32_t cp : h.coupons) {
        uint32_t probe = cp & mask; const uint32_t stride = ((cp & 0x3ffffff) >> h.lg_arr) | 1;
        bool found = false;
        for (uint32_t step = 0; step < slots; ++step) {
          if (table[probe] == cp) { found = true; break; }
          if (table[probe] == 0) break;
          probe = (probe + stride) & mask;
        }
        c.expect(found, "set-updatable-coupon-not-on-its-probe-sequence", "coupon " + std::to_string(cp) + " lg_arr=" + std::to_string(h.lg_arr));
      }
      h.set_probe_checked = true;
    }
    c.expect_end();
    return h;
  }
  // HLL mode
  c.expect(h.pre_ints == 10, "hll-preamble-ints-not-10", std::to_string(h.pre_ints));
  h.cur_min = h.byte6;
  h.hip = c.f64("hip accum"); h.kxq0 = c.f64("kxq0"); h.kxq1 = c.f64("kxq1");
  h.num_at_cur_min = c.u32("num at cur min"); h.aux_count = c.u32("aux count");
  const uint32_t k = 1u << h.lg_k;
  h.regs.assign(k, 0);
  if (h.tgt == 2) {
    c.need(k, "HLL_8 registers");
    for (uint32_t i = 0; i < k; ++i) h.regs[i] = c.p[c.off + i];
    c.off += k;
    c.expect(h.aux_count == 0, "hll8-aux-count-nonzero");
    c.expect(h.cur_min == 0, "hll8-cur-min-nonzero");
  } else if (h.tgt == 1) {
    const size_t nb = (size_t(k) * 3) / 4 + 1;
    c.need(nb, "HLL_6 registers");
    const uint8_t* d = c.p + c.off;
    for (uint32_t i = 0; i < k; ++i) {
      const size_t bit = size_t(i) * 6;
      const size_t by = bit >> 3; const unsigned sh = bit & 7;
      const unsigned two = d[by] | (unsigned(d[by + 1]) << 8);     // by+1 <= nb-1 because of the +1 pad byte
      h.regs[i] = (two >> sh) & 0x3f;
    }
    c.off += nb;
    c.expect(h.aux_count == 0, "hll6-aux-count-nonzero");
    c.expect(h.cur_min == 0, "hll6-cur-min-nonzero");
  } else {
    const size_t nb = k / 2;
    c.need(nb, "HLL_4 registers");
    const uint8_t* d = c.p + c.off;
    std::vector<uint8_t> nib(k);
    for (uint32_t i = 0; i < k; ++i) nib[i] = (i & 1) ? (d[i >> 1] >> 4) : (d[i >> 1] & 0x0f);
    c.off += nb;
    // aux area
    std::vector<uint32_t> pairs;
    if (h.compact) {
      for (uint32_t i = 0; i < h.aux_count; ++i) { uint32_t pr = c.u32("aux pair"); c.expect(pr != 0, "hll4-compact-empty-aux-pair"); pairs.push_back(pr); }
    } else {
      const uint8_t lg = h.aux_count == 0 && h.lg_arr == 0 ? hll_lg_aux_arr_ints(h.lg_k) : h.lg_arr;
      c.expect(lg >= hll_lg_aux_arr_ints(h.lg_k) && lg <= 26, "hll4-updatable-lg-aux-arr-out-of-range", std::to_string(lg));
      const uint32_t slots = 1u << lg;
      for (uint32_t i = 0; i < slots; ++i) { uint32_t pr = c.u32("aux slot"); if (pr != 0) pairs.push_back(pr); }
      c.expect(pairs.size() == h.aux_count, "hll4-aux-count-vs-nonzero-slots", std::to_string(h.aux_count) + " vs " + std::to_string(pairs.size()));
    }
    std::vector<int> auxv(k, -1);
    for (uint32_t pr : pairs) {
      const uint32_t slot = pr & 0x3ffffff; const uint32_t val = pr >> 26;
      c.expect(slot < k, "hll4-aux-slot-out-of-range", std::to_string(slot));
      c.expect(auxv[slot] < 0, "hll4-aux-duplicate-slot", std::to_string(slot));
      auxv[slot] = int(val);
    }
    for (uint32_t i = 0; i < k; ++i) {
      if (nib[i] == 15) {
        ++h.aux_tokens;
        c.expect(auxv[i] >= 0, "hll4-exception-nibble-without-aux-entry", "slot " + std::to_string(i));
        c.expect(auxv[i] - int(h.cur_min) >= 15, "hll4-aux-value-not-an-exception", "slot " + std::to_string(i));
        h.regs[i] = uint8_t(auxv[i]);
      } else {
        c.expect(auxv[i] < 0, "hll4-aux-entry-without-exception-nibble", "slot " + std::to_string(i));
        h.regs[i] = uint8_t(nib[i] + h.cur_min);
      }
    }
    c.expect(h.aux_tokens == h.aux_count, "hll4-aux-count-vs-exception-nibbles");
  }
  c.expect_end();
  return h;
}

// =================================================================== CPC
// byte0 preInts 1 serVer=1 2 family=16 3 lgK 4 firstInterestingColumn 5 flags (bit1 compressed, bit2 has HIP, bit3 has table,
// bit4 has window) 6-7 seedHash | u32 numCoupons | [u32 tableNumEntries if table&&window] | [f64 kxp, f64 hip if table&&window&&hip] |
// [u32 tableWords] [u32 windowWords] | [f64 kxp, f64 hip if hip && !(table&&window)] | window words | table words
struct Cpc {
  uint8_t pre_ints = 0, ser_ver = 0, family = 0, lg_k = 0, fic = 0, flags = 0;
  uint16_t seed_hash = 0;
  bool has_hip = false, has_table = false, has_window = false;
  uint32_t num_coupons = 0, table_num_entries = 0, table_words = 0, window_words = 0;
  double kxp = 0, hip = 0;
};

inline Cpc decode_cpc(const void* bytes, size_t size) {
  Cur c(bytes, size, "cpc");
  Cpc s;
  s.pre_ints = c.u8(); s.ser_ver = c.u8(); s.family = c.u8(); s.lg_k = c.u8(); s.fic = c.u8(); s.flags = c.u8(); s.seed_hash = c.u16();
  c.expect(s.ser_ver == 1, "serial-version-not-1", std::to_string(s.ser_ver));
  c.expect(s.family == 16, "family-not-16", std::to_string(s.family));
  c.expect(s.lg_k >= 4 && s.lg_k <= 26, "lg-k-out-of-range", std::to_string(s.lg_k));
  c.expect((s.flags & 0x01) == 0, "big-endian-flag-set");
  c.expect((s.flags & 0x02) != 0, "compressed-flag-bit1-missing", std::to_string(s.flags));
  c.expect((s.flags & 0xE0) == 0, "undefined-flag-bits-set", std::to_string(s.flags));
  c.expect(s.fic <= 63, "first-interesting-column-above-63");
  s.has_hip = s.flags & 0x04; s.has_table = s.flags & 0x08; s.has_window = s.flags & 0x10;
  if (!s.has_table && !s.has_window) {
    c.expect(s.pre_ints == 2, "empty-preamble-ints-not-2", std::to_string(s.pre_ints));
    c.expect_end();
    return s;
  }
  s.num_coupons = c.u32("num coupons");
  c.expect(s.num_coupons > 0, "nonempty-with-zero-coupons");
  if (s.has_table && s.has_window) {
    s.table_num_entries = c.u32("table num entries");
    if (s.has_hip) { s.kxp = c.f64("kxp"); s.hip = c.f64("hip"); }
  }
  if (s.has_table) s.table_words = c.u32("table words");
  if (s.has_window) s.window_words = c.u32("window words");
  if (s.has_hip && !(s.has_table && s.has_window)) { s.kxp = c.f64("kxp"); s.hip = c.f64("hip"); }
  if (!s.has_window) s.table_num_entries = s.num_coupons;
  const unsigned want_pre = 2 + 1 + (s.has_hip ? 4 : 0) + (s.has_table ? 1 + (s.has_window ? 1 : 0) : 0) + (s.has_window ? 1 : 0);
  c.expect(s.pre_ints == want_pre, "preamble-ints-vs-flags", std::to_string(s.pre_ints) + " vs " + std::to_string(want_pre));
  c.expect(c.off == size_t(s.pre_ints) * 4, "preamble-size-vs-preamble-ints", std::to_string(c.off));
  c.skip(size_t(s.window_words) * 4, "window words");
  c.skip(size_t(s.table_words) * 4, "table words");
  c.expect_end();
  return s;
}

// =================================================================== KLL
// byte0 preInts (2 empty/single, 5 full) 1 serVer (1; 2 for single item) 2 family=15 3 flags (bit0 empty, bit1 level-zero sorted,
// bit2 single item) 4-5 k 6 m 7 unused | u64 n | u16 minK u8 numLevels u8 unused | u32 levels[numLevels] | min | max | items
// level i (weight 2^i) holds items[levels[i] .. levels[i+1]) of the capacity-sized array; only items from levels[0] are stored.
template<typename T> struct Kll {
  uint8_t pre_ints = 0, ser_ver = 0, family = 0, flags = 0, m = 0, num_levels = 0;
  uint16_t k = 0, min_k = 0;
  uint64_t n = 0;
  bool empty = false, l0_sorted = false, single = false;
  std::vector<uint32_t> levels;       // numLevels stored offsets
  bool has_minmax = false; T min_item{}, max_item{};
  std::vector<T> items;               // retained, image order
  std::vector<uint64_t> weights;      // weight of each retained item
};

template<typename T> Kll<T> decode_kll(const void* bytes, size_t size) {
  Cur c(bytes, size, "kll");
  Kll<T> s;
  s.pre_ints = c.u8(); s.ser_ver = c.u8(); s.family = c.u8(); s.flags = c.u8(); s.k = c.u16(); s.m = c.u8();
  uint8_t unused = c.u8();
  c.expect(s.family == 15, "family-not-15", std::to_string(s.family));
  c.expect((s.flags & 0xF8) == 0, "undefined-flag-bits-set", std::to_string(s.flags));
  c.expect(unused == 0, "unused-byte-7-nonzero");
  c.expect(s.m == 8, "m-not-8", std::to_string(s.m));
  s.empty = s.flags & 1; s.l0_sorted = s.flags & 2; s.single = s.flags & 4;
  if (s.empty) {
    c.expect(s.pre_ints == 2, "empty-preamble-ints-not-2"); c.expect(s.ser_ver == 1, "empty-serial-version-not-1", std::to_string(s.ser_ver));
    c.expect_end(); return s;
  }
  if (s.single) {
    c.expect(s.pre_ints == 2, "single-preamble-ints-not-2"); c.expect(s.ser_ver == 2, "single-serial-version-not-2", std::to_string(s.ser_ver));
    s.n = 1; s.min_k = s.k; s.num_levels = 1;
    s.items.push_back(Item<T>::rd(c)); s.weights.push_back(1);
    c.expect_end(); return s;
  }
  c.expect(s.pre_ints == 5, "full-preamble-ints-not-5", std::to_string(s.pre_ints));
  c.expect(s.ser_ver == 1, "full-serial-version-not-1", std::to_string(s.ser_ver));
  s.n = c.u64("n"); s.min_k = c.u16("min k"); s.num_levels = c.u8("num levels");
  uint8_t un2 = c.u8("unused");
  c.expect(un2 == 0, "unused-byte-19-nonzero");
  c.expect(s.num_levels >= 1, "zero-levels");
  for (unsigned i = 0; i < s.num_levels; ++i) s.levels.push_back(c.u32("level offset"));
  for (unsigned i = 1; i < s.num_levels; ++i) c.expect(s.levels[i] >= s.levels[i - 1], "level-offsets-not-ascending");
  s.has_minmax = true;
  s.min_item = Item<T>::rd(c); s.max_item = Item<T>::rd(c);
  // items from levels[0] up to the (not stored) capacity; level boundaries relative to levels[0]
  while (c.left() > 0) s.items.push_back(Item<T>::rd(c));
  const uint32_t base = s.levels[0];
  c.expect(s.levels.back() - base <= s.items.size(), "level-offsets-beyond-stored-items");
  s.weights.assign(s.items.size(), 0);
  for (size_t i = 0; i < s.items.size(); ++i) {
    unsigned lvl = 0;
    while (lvl + 1 < s.num_levels && s.levels[lvl + 1] - base <= i) ++lvl;
    s.weights[i] = uint64_t(1) << lvl;
  }
  return s;
}

// =================================================================== REQ
// byte0 preInts (2 exact, 4 estimation) 1 serVer=1 2 family=17 3 flags (bit2 empty, bit3 high rank accuracy, bit4 raw items,
// bit5 level-zero sorted) 4-5 k 6 numLevels 7 numRawItems | [u64 n, min, max if estimation] | raw items, or per level:
// u64 state, f32 sectionSizeRaw, u8 lgWeight, u8 numSections, u16 pad, u32 numItems, items
template<typename T> struct Req {
  uint8_t pre_ints = 0, ser_ver = 0, family = 0, flags = 0, num_levels = 0, num_raw = 0;
  uint16_t k = 0;
  bool empty = false, hra = false, raw = false, l0_sorted = false;
  bool has_n = false; uint64_t n = 0;       // n stored only in estimation mode
  bool has_minmax = false; T min_item{}, max_item{};
  std::vector<T> items; std::vector<uint64_t> weights;
  struct Level { uint64_t state; float section_size_raw; uint8_t lg_weight, num_sections; uint32_t num_items; };
  std::vector<Level> lv;
};

template<typename T> Req<T> decode_req(const void* bytes, size_t size) {
  Cur c(bytes, size, "req");
  Req<T> s;
  s.pre_ints = c.u8(); s.ser_ver = c.u8(); s.family = c.u8(); s.flags = c.u8(); s.k = c.u16(); s.num_levels = c.u8(); s.num_raw = c.u8();
  c.expect(s.ser_ver == 1, "serial-version-not-1", std::to_string(s.ser_ver));
  c.expect(s.family == 17, "family-not-17", std::to_string(s.family));
  c.expect((s.flags & 0xC3) == 0, "undefined-flag-bits-set", std::to_string(s.flags));
  s.empty = s.flags & 4; s.hra = s.flags & 8; s.raw = s.flags & 16; s.l0_sorted = s.flags & 32;
  c.expect(s.pre_ints == 2 || s.pre_ints == 4, "preamble-ints-not-2-or-4", std::to_string(s.pre_ints));
  if (s.empty) { c.expect(s.pre_ints == 2, "empty-preamble-ints-not-2"); c.expect(s.num_levels == 0, "empty-num-levels-nonzero"); c.expect_end(); return s; }
  if (s.pre_ints == 4) {
    s.has_n = true; s.n = c.u64("n");
    s.has_minmax = true; s.min_item = Item<T>::rd(c); s.max_item = Item<T>::rd(c);
    c.expect(s.num_levels > 1, "estimation-preamble-with-one-level");
  } else c.expect(s.num_levels == 1, "exact-preamble-with-several-levels", std::to_string(s.num_levels));
  if (s.raw) {
    c.expect(s.num_raw >= 1 && s.num_raw <= 4, "raw-items-count-out-of-range", std::to_string(s.num_raw));
    for (unsigned i = 0; i < s.num_raw; ++i) { s.items.push_back(Item<T>::rd(c)); s.weights.push_back(1); }
  } else {
    c.expect(s.num_raw == 0, "num-raw-items-nonzero-without-raw-flag");
    for (unsigned l = 0; l < s.num_levels; ++l) {
      typename Req<T>::Level L;
      L.state = c.u64("state"); L.section_size_raw = c.f32("section size"); L.lg_weight = c.u8("lg weight"); L.num_sections = c.u8("num sections");
      uint16_t pad = c.u16("padding"); c.expect(pad == 0, "level-padding-nonzero");
      L.num_items = c.u32("num items");
      c.expect(L.lg_weight == l, "level-lg-weight-vs-position", std::to_string(L.lg_weight));
      for (uint32_t i = 0; i < L.num_items; ++i) { s.items.push_back(Item<T>::rd(c)); s.weights.push_back(uint64_t(1) << L.lg_weight); }
      s.lv.push_back(L);
    }
  }
  return s;   // trailing bytes checked by the caller (pinned tree pads 2..4-item byte images; see DESIGN.md §7 #6)
}

// =================================================================== classic quantiles
// byte0 preLongs (1 empty, 2) 1 serVer=3 2 family=8 3 flags (bit2 empty, bit3 compact, bit4 sorted) 4-5 k 6-7 unused | u64 n | min | max |
// base buffer (n mod 2k items) | levels whose bit is set in n / 2k (k items each, weight 2^(level+1))
template<typename T> struct Quant {
  uint8_t pre_longs = 0, ser_ver = 0, family = 0, flags = 0;
  uint16_t k = 0; uint64_t n = 0;
  bool empty = false, compact = false, sorted = false;
  T min_item{}, max_item{};
  std::vector<T> items; std::vector<uint64_t> weights;
};

template<typename T> Quant<T> decode_quantiles(const void* bytes, size_t size) {
  Cur c(bytes, size, "quantiles");
  Quant<T> s;
  s.pre_longs = c.u8(); s.ser_ver = c.u8(); s.family = c.u8(); s.flags = c.u8(); s.k = c.u16();
  uint16_t unused = c.u16();
  c.expect(s.ser_ver == 3, "serial-version-not-3", std::to_string(s.ser_ver));
  c.expect(s.family == 8, "family-not-8", std::to_string(s.family));
  c.expect((s.flags & 0xE3) == 0, "undefined-flag-bits-set", std::to_string(s.flags));
  c.expect(unused == 0, "unused-bytes-6-7-nonzero");
  s.empty = s.flags & 4; s.compact = s.flags & 8; s.sorted = s.flags & 16;
  c.expect(s.compact, "compact-flag-bit3-missing", std::to_string(s.flags));
  c.expect(s.sorted, "sorted-flag-bit4-missing", std::to_string(s.flags));
  if (s.empty) { c.expect(s.pre_longs == 1, "empty-preamble-longs-not-1"); c.expect_end(); return s; }
  c.expect(s.pre_longs == 2, "preamble-longs-not-2", std::to_string(s.pre_longs));
  s.n = c.u64("n");
  c.expect(s.n > 0, "nonempty-with-n-zero");
  s.min_item = Item<T>::rd(c); s.max_item = Item<T>::rd(c);
  const uint64_t bb = s.n % (2ULL * s.k);
  uint64_t pattern = s.n / (2ULL * s.k);
  for (uint64_t i = 0; i < bb; ++i) { s.items.push_back(Item<T>::rd(c)); s.weights.push_back(1); }
  for (unsigned lvl = 0; pattern != 0; ++lvl, pattern >>= 1) {
    if (pattern & 1) for (unsigned i = 0; i < s.k; ++i) { s.items.push_back(Item<T>::rd(c)); s.weights.push_back(uint64_t(2) << lvl); }
  }
  c.expect_end();
  return s;
}

// =================================================================== frequent items
// byte0 preLongs (1 empty, 4) 1 serVer=1 2 family=10 3 lgMaxMapSize 4 lgCurMapSize 5 flags (empty = bits 0 and 2) 6-7 unused |
// u32 numActive u32 unused | W totalWeight | W offset | W weights[numActive] | items[numActive]
template<typename T> struct Fi {
  uint8_t pre_longs = 0, ser_ver = 0, family = 0, lg_max = 0, lg_cur = 0, flags = 0;
  bool empty = false;
  uint32_t num_active = 0; uint64_t total_weight = 0, offset = 0;
  std::vector<uint64_t> weights; std::vector<T> items;
};

template<typename T> Fi<T> decode_fi(const void* bytes, size_t size) {
  Cur c(bytes, size, "fi");
  Fi<T> s;
  s.pre_longs = c.u8(); s.ser_ver = c.u8(); s.family = c.u8(); s.lg_max = c.u8(); s.lg_cur = c.u8(); s.flags = c.u8();
  uint16_t unused = c.u16();
  c.expect(s.ser_ver == 1, "serial-version-not-1", std::to_string(s.ser_ver));
  c.expect(s.family == 10, "family-not-10", std::to_string(s.family));
  c.expect(unused == 0, "unused-bytes-6-7-nonzero");
  c.expect(s.flags == 0 || s.flags == 5, "flags-not-0-or-5", std::to_string(s.flags));
  c.expect(s.lg_cur <= s.lg_max && s.lg_cur >= 3, "lg-cur-map-size-out-of-range", std::to_string(s.lg_cur));
  s.empty = s.flags == 5;
  if (s.empty) { c.expect(s.pre_longs == 1, "empty-preamble-longs-not-1"); c.expect_end(); return s; }
  c.expect(s.pre_longs == 4, "preamble-longs-not-4", std::to_string(s.pre_longs));
  s.num_active = c.u32("num active");
  uint32_t un = c.u32("unused"); c.expect(un == 0, "unused-u32-after-count-nonzero");
  s.total_weight = c.u64("total weight"); s.offset = c.u64("offset");
  for (uint32_t i = 0; i < s.num_active; ++i) s.weights.push_back(c.u64("weight"));
  for (uint32_t i = 0; i < s.num_active; ++i) s.items.push_back(Item<T>::rd(c));
  c.expect_end();
  return s;
}

// =================================================================== count-min
// byte0 preLongs=2 1 serVer=1 2 family=18 3 flags (bit0 empty) 4-7 unused | u32 numBuckets u8 numHashes u16 seedHash u8 unused |
// W totalWeight | W cells[numHashes * numBuckets]
template<typename W> struct Cm {
  uint8_t pre_longs = 0, ser_ver = 0, family = 0, flags = 0, num_hashes = 0;
  uint32_t num_buckets = 0; uint16_t seed_hash = 0; bool empty = false;
  W total_weight{}; std::vector<W> cells;
};

template<typename W> Cm<W> decode_cm(const void* bytes, size_t size) {
  Cur c(bytes, size, "countmin");
  Cm<W> s;
  s.pre_longs = c.u8(); s.ser_ver = c.u8(); s.family = c.u8(); s.flags = c.u8();
  uint32_t un = c.u32();
  c.expect(s.pre_longs == 2, "preamble-longs-not-2", std::to_string(s.pre_longs));
  c.expect(s.ser_ver == 1, "serial-version-not-1", std::to_string(s.ser_ver));
  c.expect(s.family == 18, "family-not-18", std::to_string(s.family));
  c.expect((s.flags & 0xFE) == 0, "undefined-flag-bits-set", std::to_string(s.flags));
  c.expect(un == 0, "unused-bytes-4-7-nonzero");
  s.empty = s.flags & 1;
  s.num_buckets = c.u32("num buckets"); s.num_hashes = c.u8("num hashes"); s.seed_hash = c.u16("seed hash");
  uint8_t un8 = c.u8("unused"); c.expect(un8 == 0, "unused-byte-15-nonzero");
  if (s.empty) { c.expect_end(); return s; }
  s.total_weight = Item<W>::rd(c);
  const size_t cells = size_t(s.num_buckets) * s.num_hashes;
  c.need(cells * sizeof(W), "cells");
  for (size_t i = 0; i < cells; ++i) s.cells.push_back(Item<W>::rd(c));
  c.expect_end();
  return s;
}

// =================================================================== VarOpt sketch
// byte0 low 6 bits preLongs (1 empty, 3 warm-up, 4 full), high 2 bits resize factor 1 serVer=2 2 family=13 3 flags (4 empty, 128 gadget)
// 4-7 k | u64 n | u32 h u32 r | [f64 totalWeightR if r > 0] | f64 weights[h] | [marks: ceil(h/8) bytes, bit i&7 of byte i/8, gadget only] |
// items[h] items[r]
template<typename T> struct VarOpt {
  uint8_t pre_longs = 0, rf = 0, ser_ver = 0, family = 0, flags = 0;
  uint32_t k = 0, h = 0, r = 0; uint64_t n = 0; double total_wt_r = 0;
  bool empty = false, gadget = false;
  std::vector<double> weights; std::vector<bool> marks; std::vector<T> items;
  size_t consumed = 0;
};

template<typename T> VarOpt<T> decode_varopt(Cur& c, bool allow_gadget) {
  VarOpt<T> s;
  const std::string fam_save = c.fam; c.fam = "varopt";
  const uint8_t b0 = c.u8();
  s.pre_longs = b0 & 0x3f; s.rf = b0 >> 6;
  s.ser_ver = c.u8(); s.family = c.u8(); s.flags = c.u8(); s.k = c.u32();
  c.expect(s.ser_ver == 2, "serial-version-not-2", std::to_string(s.ser_ver));
  c.expect(s.family == 13, "family-not-13", std::to_string(s.family));
  c.expect((s.flags & 0x7B) == 0, "undefined-flag-bits-set", std::to_string(s.flags));
  s.empty = s.flags & 4; s.gadget = s.flags & 128;
  c.expect(allow_gadget || !s.gadget, "gadget-flag-on-plain-sketch");
  if (s.empty) { c.expect(s.pre_longs == 1, "empty-preamble-longs-not-1"); c.fam = fam_save; return s; }
  s.n = c.u64("n"); s.h = c.u32("h"); s.r = c.u32("r");
  c.expect(s.pre_longs == (s.r > 0 ? 4 : 3), "preamble-longs-vs-r", std::to_string(s.pre_longs) + " r=" + std::to_string(s.r));
  if (s.r > 0) s.total_wt_r = c.f64("total weight r");
  for (uint32_t i = 0; i < s.h; ++i) s.weights.push_back(c.f64("weight"));
  if (s.gadget) {
    const uint32_t nb = s.h / 8 + (s.h % 8 ? 1 : 0);
    c.need(nb, "marks");
    for (uint32_t i = 0; i < s.h; ++i) s.marks.push_back((c.p[c.off + i / 8] >> (i & 7)) & 1);
    c.off += nb;
  }
  s.items = rd_items<T>(c, size_t(s.h) + s.r);
  c.fam = fam_save;
  return s;
}

template<typename T> VarOpt<T> decode_varopt(const void* bytes, size_t size) {
  Cur c(bytes, size, "varopt");
  VarOpt<T> s = decode_varopt<T>(c, false);
  c.expect_end();
  return s;
}

// =================================================================== VarOpt union
// byte0 preLongs (1 empty, 4) 1 serVer=2 2 family=14 3 flags (4 empty) 4-7 maxK | u64 n | f64 outerTauNumer | u64 outerTauDenom | gadget image
template<typename T> struct VarOptUnion {
  uint8_t pre_longs = 0, ser_ver = 0, family = 0, flags = 0; uint32_t max_k = 0; bool empty = false;
  uint64_t n = 0, outer_tau_denom = 0; double outer_tau_numer = 0;
  VarOpt<T> gadget;
};

template<typename T> VarOptUnion<T> decode_varopt_union(const void* bytes, size_t size) {
  Cur c(bytes, size, "varopt_union");
  VarOptUnion<T> s;
  s.pre_longs = c.u8(); s.ser_ver = c.u8(); s.family = c.u8(); s.flags = c.u8(); s.max_k = c.u32();
  c.expect(s.ser_ver == 2, "serial-version-not-2", std::to_string(s.ser_ver));
  c.expect(s.family == 14, "family-not-14", std::to_string(s.family));
  c.expect((s.flags & 0xFB) == 0, "undefined-flag-bits-set", std::to_string(s.flags));
  s.empty = s.flags & 4;
  if (s.empty) { c.expect(s.pre_longs == 1, "empty-preamble-longs-not-1"); c.expect_end(); return s; }
  c.expect(s.pre_longs == 4, "preamble-longs-not-4", std::to_string(s.pre_longs));
  s.n = c.u64("n"); s.outer_tau_numer = c.f64("outer tau numerator"); s.outer_tau_denom = c.u64("outer tau denominator");
  s.gadget = decode_varopt<T>(c, true);
  c.expect_end();
  return s;
}

// =================================================================== EBPPS
// byte0 preLongs (1 empty, 5) 1 serVer=1 2 family=19 3 flags (4 empty, 8 has partial item) 4-7 k | u64 n | f64 cumulativeWeight |
// f64 maxItemWeight | f64 rho | f64 c | floor(c) items | [partial item]
template<typename T> struct Ebpps {
  uint8_t pre_longs = 0, ser_ver = 0, family = 0, flags = 0; uint32_t k = 0; bool empty = false, has_partial = false;
  uint64_t n = 0; double cum_wt = 0, wt_max = 0, rho = 0, c = 0;
  std::vector<T> items; T partial{};
};

template<typename T> Ebpps<T> decode_ebpps(const void* bytes, size_t size) {
  Cur c(bytes, size, "ebpps");
  Ebpps<T> s;
  s.pre_longs = c.u8(); s.ser_ver = c.u8(); s.family = c.u8(); s.flags = c.u8(); s.k = c.u32();
  c.expect(s.ser_ver == 1, "serial-version-not-1", std::to_string(s.ser_ver));
  c.expect(s.family == 19, "family-not-19", std::to_string(s.family));
  c.expect((s.flags & 0xF3) == 0, "undefined-flag-bits-set", std::to_string(s.flags));
  s.empty = s.flags & 4; s.has_partial = s.flags & 8;
  if (s.empty) { c.expect(s.pre_longs == 1, "empty-preamble-longs-not-1"); c.expect_end(); return s; }
  c.expect(s.pre_longs == 5, "preamble-longs-not-5", std::to_string(s.pre_longs));
  s.n = c.u64("n"); s.cum_wt = c.f64("cumulative weight"); s.wt_max = c.f64("max item weight"); s.rho = c.f64("rho"); s.c = c.f64("c");
  c.expect(s.c >= 0 && s.c <= double(s.k) + 1e-9, "c-out-of-range", std::to_string(s.c));
  const uint32_t full = uint32_t(s.c);
  // the number of stored items is not a field: floor(c) full items, plus the partial item when c has a fractional part
  std::vector<T> all;
  while (c.left() > 0) all.push_back(Item<T>::rd(c));
  const bool frac = s.c != double(full);
  c.expect(all.size() == size_t(full) + (frac ? 1 : 0), "stored-item-count-vs-c", "c=" + std::to_string(s.c) + " stored items=" + std::to_string(all.size()));
  c.expect(s.has_partial == frac, "partial-item-flag-vs-fractional-c", std::to_string(s.c));
  if (s.has_partial) { s.partial = all.back(); all.pop_back(); }
  s.items = all;
  return s;
}

// =================================================================== t-digest
// byte0 preLongs (1 empty/single, 2) 1 serVer=1 2 type=20 3-4 k 5 flags (bit0 empty, bit1 single value, bit2 reverse merge) 6-7 unused |
// single: T value | else u32 numCentroids u32 numBuffered | T min T max | (T mean, W weight)* | T buffered*   (W = u64 for double, u32 for float)
template<typename T> struct Tdigest {
  uint8_t pre_longs = 0, ser_ver = 0, type = 0, flags = 0; uint16_t k = 0;
  bool empty = false, single = false, reverse_merge = false;
  T min_v{}, max_v{};
  std::vector<T> means; std::vector<uint64_t> weights; std::vector<T> buffer;
};

template<typename T> Tdigest<T> decode_tdigest(const void* bytes, size_t size) {
  Cur c(bytes, size, "tdigest");
  Tdigest<T> s;
  s.pre_longs = c.u8(); s.ser_ver = c.u8(); s.type = c.u8(); s.k = c.u16(); s.flags = c.u8();
  uint16_t unused = c.u16();
  c.expect(s.ser_ver == 1, "serial-version-not-1", std::to_string(s.ser_ver));
  c.expect(s.type == 20, "sketch-type-not-20", std::to_string(s.type));
  c.expect((s.flags & 0xF8) == 0, "undefined-flag-bits-set", std::to_string(s.flags));
  c.expect(unused == 0, "unused-bytes-6-7-nonzero");
  s.empty = s.flags & 1; s.single = s.flags & 2; s.reverse_merge = s.flags & 4;
  if (s.empty) { c.expect(s.pre_longs == 1, "empty-preamble-longs-not-1"); c.expect_end(); return s; }
  if (s.single) {
    c.expect(s.pre_longs == 1, "single-preamble-longs-not-1");
    T v = Item<T>::rd(c); s.min_v = s.max_v = v; s.means.push_back(v); s.weights.push_back(1);
    c.expect_end(); return s;
  }
  c.expect(s.pre_longs == 2, "preamble-longs-not-2", std::to_string(s.pre_longs));
  uint32_t nc = c.u32("num centroids"), nb = c.u32("num buffered");
  s.min_v = Item<T>::rd(c); s.max_v = Item<T>::rd(c);
  for (uint32_t i = 0; i < nc; ++i) {
    s.means.push_back(Item<T>::rd(c));
    s.weights.push_back(sizeof(T) == 8 ? c.u64("weight") : uint64_t(c.u32("weight")));
  }
  for (uint32_t i = 0; i < nb; ++i) s.buffer.push_back(Item<T>::rd(c));
  c.expect_end();
  return s;
}

// =================================================================== Bloom filter
// byte0 preLongs (3 empty, 4) 1 serVer=1 2 family=21 3 flags (4 empty) 4-5 numHashes 6-7 unused | u64 seed | u32 bitArrayLongs u32 unused |
// u64 numBitsSet (all ones = not counted) | bit array, bit i = byte i/8 bit i%8
struct Bloom {
  uint8_t pre_longs = 0, ser_ver = 0, family = 0, flags = 0; uint16_t num_hashes = 0; uint64_t seed = 0; uint32_t num_longs = 0;
  bool empty = false; uint64_t num_bits_set = 0; std::vector<uint8_t> bits;
  bool bit(uint64_t i) const { return (bits[i >> 3] >> (i & 7)) & 1; }
  uint64_t popcount() const { uint64_t n = 0; for (uint8_t b : bits) n += __builtin_popcount(b); return n; }
};

inline Bloom decode_bloom(const void* bytes, size_t size) {
  Cur c(bytes, size, "bloom");
  Bloom s;
  s.pre_longs = c.u8(); s.ser_ver = c.u8(); s.family = c.u8(); s.flags = c.u8(); s.num_hashes = c.u16();
  uint16_t un = c.u16();
  c.expect(s.ser_ver == 1, "serial-version-not-1", std::to_string(s.ser_ver));
  c.expect(s.family == 21, "family-not-21", std::to_string(s.family));
  c.expect((s.flags & 0xFB) == 0, "undefined-flag-bits-set", std::to_string(s.flags));
  c.expect(un == 0, "unused-bytes-6-7-nonzero");
  s.empty = s.flags & 4;
  s.seed = c.u64("seed"); s.num_longs = c.u32("bit array longs");
  uint32_t un2 = c.u32("unused"); c.expect(un2 == 0, "unused-bytes-20-23-nonzero");
  if (s.empty) { c.expect(s.pre_longs == 3, "empty-preamble-longs-not-3", std::to_string(s.pre_longs)); c.expect_end(); return s; }
  c.expect(s.pre_longs == 4, "preamble-longs-not-4", std::to_string(s.pre_longs));
  s.num_bits_set = c.u64("num bits set");
  c.need(size_t(s.num_longs) * 8, "bit array");
  s.bits.assign(c.p + c.off, c.p + c.off + size_t(s.num_longs) * 8);
  c.off += size_t(s.num_longs) * 8;
  c.expect_end();
  return s;
}

// =================================================================== density
// byte0 preInts (3 empty, 6) 1 serVer=1 2 family=19 3 flags (bit2 empty) 4-5 k 6-7 unused 8-11 dim | u32 numRetained | u64 n |
// per level (weight 2^level): u32 levelSize, levelSize * dim values
template<typename T> struct Density {
  uint8_t pre_ints = 0, ser_ver = 0, family = 0, flags = 0; uint16_t k = 0; uint32_t dim = 0, num_retained = 0; uint64_t n = 0;
  bool empty = false;
  std::vector<std::vector<T>> points; std::vector<uint64_t> weights;
};

template<typename T> Density<T> decode_density(const void* bytes, size_t size) {
  Cur c(bytes, size, "density");
  Density<T> s;
  s.pre_ints = c.u8(); s.ser_ver = c.u8(); s.family = c.u8(); s.flags = c.u8(); s.k = c.u16();
  uint16_t un = c.u16();
  s.dim = c.u32("dim");
  c.expect(s.ser_ver == 1, "serial-version-not-1", std::to_string(s.ser_ver));
  c.expect(s.family == 19, "family-not-19", std::to_string(s.family));
  c.expect((s.flags & 0xFB) == 0, "undefined-flag-bits-set", std::to_string(s.flags));
  c.expect(un == 0, "unused-bytes-6-7-nonzero");
  s.empty = s.flags & 4;
  if (s.empty) { c.expect(s.pre_ints == 3, "empty-preamble-ints-not-3"); c.expect_end(); return s; }
  c.expect(s.pre_ints == 6, "preamble-ints-not-6", std::to_string(s.pre_ints));
  s.num_retained = c.u32("num retained"); s.n = c.u64("n");
  for (unsigned lvl = 0; c.left() > 0; ++lvl) {
    c.expect(lvl < 64, "more-than-64-levels");
    uint32_t ls = c.u32("level size");
    for (uint32_t i = 0; i < ls; ++i) {
      std::vector<T> pt; for (uint32_t d = 0; d < s.dim; ++d) pt.push_back(Item<T>::rd(c));
      s.points.push_back(pt); s.weights.push_back(uint64_t(1) << lvl);
    }
  }
  c.expect(s.points.size() == s.num_retained, "num-retained-vs-level-sizes", std::to_string(s.num_retained) + " vs " + std::to_string(s.points.size()));
  return s;
}

// ------------------------------------------------------------------ little-endian writer (used to synthesise legacy images)
struct Wr {
  std::string b;
  Wr& u8(uint8_t v) { b.push_back(char(v)); return *this; }
  Wr& u16(uint16_t v) { for (int i = 0; i < 2; ++i) b.push_back(char(v >> (8 * i))); return *this; }
  Wr& u32(uint32_t v) { for (int i = 0; i < 4; ++i) b.push_back(char(v >> (8 * i))); return *this; }
  Wr& u64(uint64_t v) { for (int i = 0; i < 8; ++i) b.push_back(char(v >> (8 * i))); return *this; }
  Wr& f32(float v) { uint32_t u; memcpy(&u, &v, 4); return u32(u); }
  Wr& f64(double v) { uint64_t u; memcpy(&u, &v, 8); return u64(u); }
  Wr& u16be(uint16_t v) { for (int i = 1; i >= 0; --i) b.push_back(char(v >> (8 * i))); return *this; }
  Wr& u32be(uint32_t v) { for (int i = 3; i >= 0; --i) b.push_back(char(v >> (8 * i))); return *this; }
  Wr& u64be(uint64_t v) { for (int i = 7; i >= 0; --i) b.push_back(char(v >> (8 * i))); return *this; }
  Wr& f32be(float v) { uint32_t u; memcpy(&u, &v, 4); return u32be(u); }
  Wr& f64be(double v) { uint64_t u; memcpy(&u, &v, 8); return u64be(u); }
  Wr& zeros(size_t n) { b.append(n, '\0'); return *this; }
};

} } // namespace vf::c10
#endif
