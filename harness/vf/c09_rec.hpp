// C09 — custom item / summary type with a hand-written variable-length serde (shared by the c09 units)
#ifndef VF_C09_REC_HPP
#define VF_C09_REC_HPP
#include "core.hpp"
#include <iostream>
namespace vf { namespace c09 {

struct Rec {
  int32_t a = 0;
  std::string s;
  Rec() {}
  Rec(int32_t a_, const std::string& s_): a(a_), s(s_) {}
  Rec& operator+=(const Rec& o) { a += o.a; if (s.size() < 12) s += o.s; return *this; }
  bool operator==(const Rec& o) const { return a == o.a && s == o.s; }
  bool operator<(const Rec& o) const { return a != o.a ? a < o.a : s < o.s; }
};
struct RecHash { size_t operator()(const Rec& r) const { return std::hash<std::string>()(r.s) * 31 + static_cast<size_t>(r.a); } };

// layout per item: 1 byte length L (<= 255), L bytes, int32 little endian
struct RecSerde {
  void serialize(std::ostream& os, const Rec* items, unsigned num) const {
    for (unsigned i = 0; i < num; ++i) {
      const uint8_t l = static_cast<uint8_t>(items[i].s.size());
      os.write(reinterpret_cast<const char*>(&l), 1); os.write(items[i].s.data(), l);
      os.write(reinterpret_cast<const char*>(&items[i].a), 4);
    }
  }
  void deserialize(std::istream& is, Rec* items, unsigned num) const {
    unsigned i = 0;
    try {
      for (; i < num; ++i) {
        uint8_t l = 0; is.read(reinterpret_cast<char*>(&l), 1);
        std::string s(l, '\0'); if (l) is.read(&s[0], l);
        int32_t a = 0; is.read(reinterpret_cast<char*>(&a), 4);
        if (!is.good()) throw std::runtime_error("RecSerde: stream error");
        new (&items[i]) Rec(a, s);
      }
    } catch (...) { for (unsigned j = 0; j < i; ++j) items[j].~Rec(); throw; }
  }
  size_t serialize(void* ptr, size_t capacity, const Rec* items, unsigned num) const {
    uint8_t* p = static_cast<uint8_t*>(ptr); size_t w = 0;
    for (unsigned i = 0; i < num; ++i) {
      const uint8_t l = static_cast<uint8_t>(items[i].s.size());
      if (w + 5 + l > capacity) throw std::out_of_range("RecSerde: capacity exceeded on write");
      p[w++] = l; memcpy(p + w, items[i].s.data(), l); w += l; memcpy(p + w, &items[i].a, 4); w += 4;
    }
    return w;
  }
  size_t deserialize(const void* ptr, size_t capacity, Rec* items, unsigned num) const {
    const uint8_t* p = static_cast<const uint8_t*>(ptr); size_t rd = 0;
    unsigned i = 0;
    try {
      for (; i < num; ++i) {
        if (rd + 1 > capacity) throw std::out_of_range("RecSerde: capacity exceeded on read");
        const uint8_t l = p[rd++];
        if (rd + l + 4 > capacity) throw std::out_of_range("RecSerde: capacity exceeded on read");
        int32_t a; memcpy(&a, p + rd + l, 4);
        new (&items[i]) Rec(a, std::string(reinterpret_cast<const char*>(p + rd), l)); rd += l + 4;
      }
    } catch (...) { for (unsigned j = 0; j < i; ++j) items[j].~Rec(); throw; }
    return rd;
  }
  size_t size_of_item(const Rec& r) const { return 5 + r.s.size(); }
};

inline std::string item_str(const Rec& r) { return std::to_string(r.a) + ":'" + hexbytes(r.s.data(), r.s.size(), 40) + "'"; }
inline std::ostream& operator<<(std::ostream& os, const Rec& r) { return os << item_str(r); }

}} // namespace
#endif
