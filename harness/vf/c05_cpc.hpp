// C05 shared helpers: independent coupon-matrix model of a CPC sketch, full read-out comparison,
// and the lossless-image (serialize -> deserialize) comparison.  Used by c05_cpc_stream.cpp and
// c05_cpc_union.cpp.  Compiled with -fno-access-control: private members of cpc_sketch / cpc_union are
// only READ (build_bit_matrix, window_offset, first_interesting_column, kxp, hip_est_accum,
// was_merged, table slots); the only private call that changes state is row_col_update(), the
// documented feed point for an already-derived (row, col) coupon.
#ifndef VF_C05_CPC_HPP
#define VF_C05_CPC_HPP

#include "core.hpp"
#include "gen.hpp"
#include "refhash.hpp"
#include <cpc_sketch.hpp>
#include <cpc_union.hpp>
#include <sstream>
#include <map>
#include <memory>

namespace vf {
namespace c05 {

using datasketches::cpc_sketch;
using datasketches::cpc_union;

// ------------------------------------------------------------------ independent derivations
inline unsigned clz64(uint64_t x) {          // plain loop, deliberately not the library's table method
  if (x == 0) return 64;
  unsigned n = 0;
  while (!(x >> 63)) { x <<= 1; ++n; }
  return n;
}
inline unsigned popcnt64(uint64_t x) { unsigned n = 0; while (x) { x &= x - 1; ++n; } return n; }

// (row << 6) | col of an input whose reference MurmurHash3 is h, for a sketch with 2^lg_k rows.
// Documented: col = number of leading zeros of h2 clipped to 63, row = low lg_k bits of h1, and the one
// pair that would collide with the table's empty marker (all 32 bits set) has its lowest row bit flipped.
inline uint32_t ref_row_col(const H128& h, uint8_t lg_k) {
  unsigned col = clz64(h.h2);
  if (col > 63) col = 63;
  const uint32_t row = static_cast<uint32_t>(h.h1 & ((uint64_t(1) << lg_k) - 1));
  uint32_t rc = (row << 6) | col;
  if (rc == 0xffffffffu) rc ^= 64u;
  return rc;
}

enum Flavor { F_EMPTY, F_SPARSE, F_HYBRID, F_PINNED, F_SLIDING };
inline const char* flavor_name(Flavor f) { static const char* n[] = {"empty", "sparse", "hybrid", "pinned", "sliding"}; return n[f]; }
// documented flavor boundaries: 0 | 3k/32 | k/2 | 27k/8
inline Flavor flavor_of(uint8_t lg_k, uint64_t c) {
  const uint64_t k = uint64_t(1) << lg_k;
  if (c == 0) return F_EMPTY;
  if (32 * c < 3 * k) return F_SPARSE;
  if (2 * c < k) return F_HYBRID;
  if (8 * c < 27 * k) return F_PINNED;
  return F_SLIDING;
}
// largest coupon count a sketch can represent: the window offset (C/k - 19/8 rounded down) must stay <= 56
inline uint64_t max_coupons(uint8_t lg_k) { const uint64_t k = uint64_t(1) << lg_k; return 27 * k / 8 + 56 * k - 1; }

// coupon counts at which the representation changes (flavor boundaries and every window shift)
inline std::vector<uint64_t> boundaries(uint8_t lg_k) {
  const uint64_t k = uint64_t(1) << lg_k;
  std::vector<uint64_t> b;
  b.push_back((3 * k + 31) / 32);
  b.push_back(k / 2);
  for (uint64_t w = 0; w <= 56; ++w) b.push_back(27 * k / 8 + w * k);
  return b;
}

// ------------------------------------------------------------------ the model: a set of (row, col) pairs
struct Model {
  uint8_t lg_k = 4;
  bool dense = true;
  std::vector<uint64_t> mat;             // dense form: one 64-bit row pattern per row
  std::map<uint32_t, uint64_t> sp;       // sparse form (lg_k > 22): only non-zero rows
  uint64_t C = 0;                        // number of distinct pairs

  Model() {}
  explicit Model(uint8_t lg) : lg_k(lg), dense(lg <= 22) { if (dense) mat.assign(size_t(1) << lg, 0); }
  uint64_t k() const { return uint64_t(1) << lg_k; }
  uint64_t row_bits(uint32_t row) const {
    if (dense) return mat[row];
    auto it = sp.find(row);
    return it == sp.end() ? 0 : it->second;
  }
  bool add(uint32_t row, unsigned col) {
    uint64_t& w = dense ? mat[row] : sp[row];
    const uint64_t bit = uint64_t(1) << col;
    if (w & bit) return false;
    w |= bit; ++C;
    return true;
  }
  bool add_rc(uint32_t rc) { return add(rc >> 6, rc & 63); }
  bool has_rc(uint32_t rc) const { return (row_bits(rc >> 6) >> (rc & 63)) & 1; }
  template<typename F> void for_each_row(F&& f) const {
    if (dense) { for (size_t i = 0; i < mat.size(); ++i) if (mat[i]) f(static_cast<uint32_t>(i), mat[i]); }
    else for (auto& kv : sp) if (kv.second) f(kv.first, kv.second);
  }
  // OR src (lg_k >= this lg_k) into this, folding rows: row -> row & (k-1)
  void or_folded(const Model& src) {
    const uint32_t mask = static_cast<uint32_t>(k() - 1);
    src.for_each_row([&](uint32_t row, uint64_t bits) {
      uint64_t& w = dense ? mat[row & mask] : sp[row & mask];
      C += popcnt64(bits & ~w);
      w |= bits;
    });
  }
  Model folded(uint8_t new_lg) const { Model m(new_lg); m.or_folded(*this); return m; }
  uint64_t hash() const {
    uint64_t h = mix64(lg_k, C);
    for_each_row([&](uint32_t row, uint64_t bits) { h = mix64(h, mix64(row, bits)); });
    return h;
  }
};

// ------------------------------------------------------------------ read-out of the real sketch
// Row patterns of the real sketch as a sparse map row -> bits (only non-zero rows).
// For lg_k <= 22 this goes through the library's own build_bit_matrix(); above that (sparse-only smoke
// cases) the k x 64 matrix would be 0.5 GB, so the surprising-value table of a window-less sketch is
// read directly (in the sparse flavor the table IS the coupon set).
inline bool read_matrix(const cpc_sketch& s, std::vector<uint64_t>& dense_out, std::map<uint32_t, uint64_t>& sparse_out, bool& is_dense) {
  if (s.lg_k <= 22) {
    auto m = s.build_bit_matrix();
    dense_out.assign(m.begin(), m.end());
    is_dense = true;
    return true;
  }
  is_dense = false;
  if (s.sliding_window.size() != 0) return false;
  const uint32_t* slots = s.surprising_value_table.get_slots();
  const size_t n = size_t(1) << s.surprising_value_table.get_lg_size();
  for (size_t i = 0; i < n; ++i) if (slots[i] != UINT32_MAX) sparse_out[slots[i] >> 6] |= uint64_t(1) << (slots[i] & 63);
  return true;
}

// compare real matrix with model; returns true if identical, else fills detail
inline bool matrix_equals(const cpc_sketch& s, const Model& m, std::string& detail, bool& missing) {
  std::vector<uint64_t> dn; std::map<uint32_t, uint64_t> sp; bool is_dense = true;
  if (!read_matrix(s, dn, sp, is_dense)) { detail = "cannot read matrix (windowed sketch with lg_k > 22)"; missing = true; return false; }
  uint64_t bad_rows = 0; uint32_t first_row = 0; uint64_t got0 = 0, want0 = 0;
  auto note = [&](uint32_t row, uint64_t got, uint64_t want) { if (!bad_rows++) { first_row = row; got0 = got; want0 = want; } };
  if (is_dense) {
    if (dn.size() != m.k()) { detail = "matrix has " + std::to_string(dn.size()) + " rows, expected " + std::to_string(m.k()); missing = true; return false; }
    for (size_t i = 0; i < dn.size(); ++i) { const uint64_t w = m.row_bits(static_cast<uint32_t>(i)); if (dn[i] != w) note(static_cast<uint32_t>(i), dn[i], w); }
  } else {
    for (auto& kv : sp) { const uint64_t w = m.row_bits(kv.first); if (kv.second != w) note(kv.first, kv.second, w); }
    m.for_each_row([&](uint32_t row, uint64_t bits) { if (!sp.count(row)) note(row, 0, bits); });
  }
  if (!bad_rows) return true;
  missing = (want0 & ~got0) != 0;
  char buf[200];
  snprintf(buf, sizeof buf, "%llu rows differ; first row %u: sketch=%016llx model=%016llx (missing=%016llx extra=%016llx)",
           (unsigned long long)bad_rows, first_row, (unsigned long long)got0, (unsigned long long)want0,
           (unsigned long long)(want0 & ~got0), (unsigned long long)(got0 & ~want0));
  detail = buf;
  return false;
}

inline unsigned floor_log2_u64(uint64_t x) { unsigned p = 0; while (x >>= 1) ++p; return p; }
// Coverage measure for the pair coder of the image (format documented in cpc_compressor_impl.hpp): the
// stored pair list is sorted by row, each row delta is written as (delta >> b) in unary + b low bits with
// b = floor(log2(k / num_pairs)).  Returns the largest row delta of the list in units of 2^b rows.
// The list holds all coupons (sparse, hybrid), the coupons right of the window (pinned), or the
// surprising zeros left of / ones right of the window (sliding).
inline uint64_t max_row_gap_units(const Model& m) {
  if (!m.dense || m.C == 0) return 0;
  const Flavor f = flavor_of(m.lg_k, m.C);
  const uint64_t k = m.k();
  unsigned w = 0;
  if (f == F_SLIDING) w = static_cast<unsigned>((8 * m.C - 19 * k) / (8 * k));
  uint64_t pairs = 0, prev = 0, gap = 0;
  for (uint64_t row = 0; row < k; ++row) {
    const uint64_t bits = m.mat[row];
    uint64_t pat;
    if (f <= F_HYBRID) pat = bits;
    else if (f == F_PINNED) pat = bits >> 8;
    else pat = (bits & ~(uint64_t(0xff) << w)) ^ ((uint64_t(1) << w) - 1);
    if (pat) { pairs += popcnt64(pat); if (row - prev > gap) gap = row - prev; prev = row; }
  }
  if (!pairs) return 0;
  const uint64_t q = k / pairs;
  return gap >> (q ? floor_log2_u64(q) : 0);
}


// ---------------------------------------------------------------- rare inputs: coupon column >= 31
// uint64 keys mined offline (default seed 9001) whose second hash word has >= 31 leading zeros (about one key
// in 2^31).  Each is re-verified here with the reference hash; keys that fail are dropped (and counted by the
// monitors).  Columns >= 32 are where a 32-bit shift or mask in the library would go wrong.
struct RareKey { uint64_t x; unsigned col; };
inline const std::vector<RareKey>& rare_keys() {
  static std::vector<RareKey> keys;
  static bool built = false;
  if (!built) {
    built = true;
    static const uint64_t cand[] = {5366044298ULL, 27328365571ULL, 11173371160ULL, 16346886804ULL, 20844166222ULL, 15216346685ULL,
                                    8253553449ULL, 5411159528ULL, 8976502966ULL, 10935192973ULL, 8971523326ULL};
    for (uint64_t x : cand) {
      const unsigned col = std::min(63u, clz64(ref_hash_u64(x, 9001).h2));
      if (col >= 31) keys.push_back(RareKey{x, col});
    }
  }
  return keys;
}
inline Val rare_val(const RareKey& k) { Val v; v.kind = V_U64; v.u = k.x; return v; }
// number of coupons of the model in columns >= 32
inline uint64_t hi_col_coupons(const Model& m) { uint64_t n = 0; m.for_each_row([&](uint32_t, uint64_t bits) { n += popcnt64(bits >> 32); }); return n; }

// (lg_k, C) -> estimate bits + matrix hash of the first merged sketch seen with that (lg_k, C) in this process
struct MergedSeen { uint64_t est_bits; uint64_t mat_hash; };
inline std::map<std::pair<int, uint64_t>, MergedSeen>& merged_registry() { static std::map<std::pair<int, uint64_t>, MergedSeen> m; return m; }

struct ObsOpt {
  int expect_merged = -1;      // -1 unknown, 0 must be HIP form, 1 must be merged form
  bool check_bounds = true;
  bool heavy_validate = true;  // call validate() (allocates the k x 64 matrix)
};

// Full read-out of sketch s compared with model m.  pfx = key prefix (which path produced s).
inline void observe(const cpc_sketch& s, const Model& m, const std::string& pfx, const std::string& ctx0, const ObsOpt& o = ObsOpt()) {
  const std::string ctx = ctx0 + " lg_k=" + std::to_string(m.lg_k) + " modelC=" + std::to_string(m.C) +
    " flavor=" + flavor_name(flavor_of(m.lg_k, m.C)) + " offset=" + std::to_string(s.window_offset);
  VF_CHECK(s.get_lg_k() == m.lg_k, pfx + "|lg_k", ctx + " got=" + std::to_string(s.get_lg_k()));
  if (s.get_lg_k() != m.lg_k) return;
  VF_CHECK(s.get_num_coupons() == m.C, pfx + "|num_coupons-vs-distinct-pairs", ctx + " num_coupons=" + std::to_string(s.get_num_coupons()));
  VF_CHECK(s.is_empty() == (m.C == 0), pfx + "|is_empty", ctx);
  if (o.heavy_validate) VF_CHECK(s.validate(), pfx + "|validate-false", ctx + " num_coupons=" + std::to_string(s.get_num_coupons()));
  {
    std::string d; bool missing = false;
    const bool eq = matrix_equals(s, m, d, missing);
    checked();
    if (!eq) fail(pfx + (missing ? "|matrix-coupon-missing" : "|matrix-coupon-extra"), ctx + " " + d);
  }
  const double est = s.get_estimate();
  if (o.check_bounds) {
    double lb[4], ub[4];
    for (unsigned kap = 1; kap <= 3; ++kap) { lb[kap] = s.get_lower_bound(kap); ub[kap] = s.get_upper_bound(kap); }
    const bool ok = lb[3] <= lb[2] && lb[2] <= lb[1] && lb[1] <= est && est <= ub[1] && ub[1] <= ub[2] && ub[2] <= ub[3];
    VF_CHECK(ok, pfx + "|bounds-not-nested-around-estimate", ctx + " lb3=" + str(lb[3]) + " lb2=" + str(lb[2]) + " lb1=" + str(lb[1]) + " est=" + str(est) +
             " ub1=" + str(ub[1]) + " ub2=" + str(ub[2]) + " ub3=" + str(ub[3]));
  }
  if (o.expect_merged >= 0) VF_CHECK(s.was_merged == (o.expect_merged == 1), pfx + "|merged-flag", ctx);
  if (s.was_merged) {
    // merged form: estimate is a function of (lg_k, C) only
    // (keyed on the sketch's own reported coupon count, so that a coupon-count defect does not cascade here)
    const uint64_t own_c = s.get_num_coupons();
    const double icon = datasketches::compute_icon_estimate(m.lg_k, static_cast<uint32_t>(own_c));
    VF_CHECK(dbits(est) == dbits(icon), pfx + "|merged-estimate-not-icon-of-lgk-C", ctx + " est=" + str(est) + " icon=" + str(icon));
    const uint64_t mh = m.hash();
    auto key = std::make_pair(int(m.lg_k), own_c);
    auto it = merged_registry().find(key);
    if (it == merged_registry().end()) { if (merged_registry().size() < 200000) merged_registry()[key] = MergedSeen{dbits(est), mh}; }
    else {
      if (it->second.mat_hash != mh) count("merged_same_lgk_C_different_content");
      VF_CHECK(it->second.est_bits == dbits(est), pfx + "|merged-estimate-differs-for-equal-lgk-C", ctx + " est=" + str(est));
    }
    count("obs_merged");
  } else count("obs_hip");
  const Flavor f = flavor_of(m.lg_k, m.C);
  count(std::string("obs_flavor_") + flavor_name(f));
  if (s.window_offset >= 1) count("obs_offset_ge_1");
  if (s.window_offset >= 8) count("obs_offset_ge_8");
  if (s.window_offset >= 12) count("obs_offset_ge_12");
  if (s.window_offset >= 32) count("obs_offset_ge_32");
  if (s.window_offset == 56) count("obs_offset_eq_56");
  sig(mix64(mix64(m.hash(), s.window_offset), mix64(s.was_merged, s.first_interesting_column)));
}

// Lossless image: serialize s three ways, deserialize each, compare everything with s and the model.
// Returns (optionally) one of the deserialized sketches so the caller can keep working on it.
inline void roundtrip(const cpc_sketch& s, const Model& m, uint64_t seed, const std::string& pfx0, const std::string& ctx0,
                      std::unique_ptr<cpc_sketch>* keep = nullptr, int keep_which = 0, bool heavy = true) {
  const std::string pfx = pfx0 + "|roundtrip";
  const Flavor f = flavor_of(m.lg_k, m.C);
  const std::string ctx = ctx0 + " lg_k=" + std::to_string(m.lg_k) + " C=" + std::to_string(m.C) + " flavor=" + flavor_name(f) +
    " offset=" + std::to_string(s.window_offset) + " merged=" + std::to_string(s.was_merged);
  if (m.lg_k >= 9) {
    const uint64_t units = max_row_gap_units(m);
    if (units >= 256) { count("roundtrip_with_row_gap_ge_256_units"); count(std::string("roundtrip_row_gap_ge_256_units_") + flavor_name(f)); }
    if (units >= 512) count("roundtrip_with_row_gap_ge_512_units");
  }
  try {
    auto b0 = s.serialize(0);
    auto b8 = s.serialize(8);
    std::stringstream ss(std::ios::in | std::ios::out | std::ios::binary);
    s.serialize(ss);
    const std::string sb = ss.str();
    const char* form[3] = {"bytes-header0", "bytes-header8", "stream"};
    for (int w = 0; w < 3; ++w) {
      std::unique_ptr<cpc_sketch> d;
      if (w == 0) d.reset(new cpc_sketch(cpc_sketch::deserialize(b0.data(), b0.size(), seed)));
      else if (w == 1) {
        if (b8.size() < 8) { fail(pfx + "|header8-image-too-short", ctx); continue; }
        d.reset(new cpc_sketch(cpc_sketch::deserialize(b8.data() + 8, b8.size() - 8, seed)));
      } else {
        std::istringstream is(sb, std::ios::in | std::ios::binary);
        d.reset(new cpc_sketch(cpc_sketch::deserialize(is, seed)));
      }
      const std::string c = ctx + " form=" + form[w];
      ObsOpt o; o.expect_merged = s.was_merged ? 1 : 0; o.heavy_validate = heavy;
      observe(*d, m, pfx, c, o);
      VF_CHECK(d->window_offset == s.window_offset, pfx + "|window-offset-differs", c + " got=" + std::to_string(d->window_offset));
      VF_CHECK(d->first_interesting_column == s.first_interesting_column, pfx + "|first-interesting-column-differs",
               c + " got=" + std::to_string(d->first_interesting_column) + " want=" + std::to_string(s.first_interesting_column));
      if (!s.was_merged) {
        // (own key for the empty sketch: its image has no HIP fields at all, a different mechanism)
        VF_CHECK(dbits(d->kxp) == dbits(s.kxp), pfx + (m.C == 0 ? "|empty-sketch-kxp-not-restored" : "|kxp-differs"), c + " got=" + str(d->kxp) + " want=" + str(s.kxp));
        VF_CHECK(dbits(d->hip_est_accum) == dbits(s.hip_est_accum), pfx + "|hip-accumulator-differs", c + " got=" + str(d->hip_est_accum) + " want=" + str(s.hip_est_accum));
      }
      VF_CHECK(dbits(d->get_estimate()) == dbits(s.get_estimate()), pfx + "|estimate-differs", c + " got=" + str(d->get_estimate()) + " want=" + str(s.get_estimate()));
      for (unsigned kap = 1; kap <= 3; ++kap) {
        VF_CHECK(dbits(d->get_lower_bound(kap)) == dbits(s.get_lower_bound(kap)) && dbits(d->get_upper_bound(kap)) == dbits(s.get_upper_bound(kap)),
                 pfx + "|bounds-differ", c + " kappa=" + std::to_string(kap));
      }
      auto again = d->serialize(0);
      VF_CHECK(again.size() == b0.size() && std::equal(again.begin(), again.end(), b0.begin()), pfx + "|reserialized-image-differs",
               c + " first=" + hexbytes(b0.data(), b0.size(), 64) + " again=" + hexbytes(again.data(), again.size(), 64));
      count(std::string("roundtrip_") + flavor_name(f));
      if (s.was_merged) count("roundtrip_merged");
      if (s.window_offset >= 1) count("roundtrip_offset_ge_1");
      if (keep && keep_which == w) *keep = std::move(d);
    }
  } catch (const std::exception& e) {
    fail(pfx + "|threw-on-valid-image", ctx + " what=" + e.what());
  }
}

// hash one generated value into a model and into the sketch
inline void feed(cpc_sketch& s, Model& m, const Val& v, uint64_t seed) {
  apply_update(s, v);
  if (!v.ignored()) m.add_rc(ref_row_col(v.ref_hash(seed), m.lg_k));
}

} // namespace c05
} // namespace vf
#endif
