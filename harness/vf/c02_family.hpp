// C02 — Theta set operations return the exact set expression over the hash samples.
// Shared part of the two C02 units (c02_theta_union_inter.cpp, c02_theta_pairs.cpp): input families in all
// physical forms, the set-algebra models and the result comparison.
// Reference-model monitor.  A case is a family of 2-5 logical input sketches over a shared item
// universe with planned overlaps.  Every logical input is materialised in 8 physical forms
// (update sketch, compact ordered / unordered, deserialized from uncompressed bytes / compressed bytes /
// a stream, wrapped over uncompressed / compressed bytes).  The model of an input is its *own* read-out
// (theta, entry set, empty flag — C01 validates update sketches against the hash definition); expected
// union / intersection / A-not-B / Jaccard results are computed from those with plain sorted-set algebra
// and compared with what the library returns for every permutation of presentation (all n! for n <= 4),
// random form substitution, interleaved get_result() calls and stateful reuse.
#ifndef VF_C02_FAMILY_HPP
#define VF_C02_FAMILY_HPP
#include "core.hpp"
#include "refhash.hpp"
#include <theta_sketch.hpp>
#include <theta_union.hpp>
#include <theta_intersection.hpp>
#include <theta_a_not_b.hpp>
#include <theta_jaccard_similarity.hpp>
#include <bounds_on_ratios_in_theta_sketched_sets.hpp>
#include <memory>
#include <sstream>
#include <array>

namespace vf {
using namespace datasketches;

static const uint64_t MAXT = 0x7fffffffffffffffULL;
typedef std::vector<uint64_t> Vec;

// F_L*: LEGACY images of the same (theta, hash set, empty flag), built by hand (see legacy_image_*): serial version 1,
// serial version 2, and Java-style serial version 3 variants (single-item flag, empty-flag forms, explicit theta=MAX),
// each consumed through wrap() (W), deserialize(bytes) (B) and deserialize(stream) (S)
enum Form { F_UPD, F_CO, F_CU, F_DB, F_DC, F_DS, F_WU, F_WC,
            F_L1W, F_L1B, F_L1S, F_L2W, F_L2B, F_L2S, F_L3W, F_L3B, F_L3S, F_N };
static const char* const form_name[F_N] = {"upd", "cord", "cunord", "dbytes", "dcomp", "dstream", "wrap", "wrapcomp",
  "v1wrap", "v1bytes", "v1stream", "v2wrap", "v2bytes", "v2stream", "v3jwrap", "v3jbytes", "v3jstream"};
static bool form_wrapped(int f) { return f == F_WU || f == F_WC || f == F_L1W || f == F_L2W || f == F_L3W; }
enum Cls { C_EMPTY, C_EXACT, C_EST, C_ZERO, C_N };
static const char* const cls_name[C_N] = {"empty", "exact", "est", "zero"};

// logical state of a sketch: theta, sorted entry set, empty flag
struct State {
  uint64_t theta = MAXT;
  Vec ent;
  bool empty = true;
  bool operator==(const State& o) const { return theta == o.theta && empty == o.empty && ent == o.ent; }
};

static int classify(const State& s) {
  if (s.empty) return C_EMPTY;
  if (s.theta == MAXT) return C_EXACT;
  return s.ent.empty() ? C_ZERO : C_EST;
}

static std::string sstr(const State& s) {
  return "{theta=" + std::to_string(s.theta) + " n=" + std::to_string(s.ent.size()) + " empty=" + (s.empty ? "1" : "0") + "}";
}

struct Raw {       // raw read-out of one physical sketch
  State st;        // entries sorted
  bool dup = false;
  bool ascending = true;   // iteration order strictly ascending
  bool ordered_flag = false;
  uint32_t num_retained = 0;
  size_t iterated = 0;
  uint16_t seed_hash = 0;
  uint64_t last = 0;       // largest entry (0 if none)
};

template<typename S> static Raw read_raw(const S& s) {
  Raw r;
  r.st.theta = s.get_theta64();
  r.st.empty = s.is_empty();
  r.ordered_flag = s.is_ordered();
  r.num_retained = s.get_num_retained();
  r.seed_hash = s.get_seed_hash();
  uint64_t prev = 0; bool first = true;
  for (auto it = s.begin(); it != s.end(); ++it) {
    const uint64_t h = *it;
    if (!first && h <= prev) r.ascending = false;
    prev = h; first = false;
    r.st.ent.push_back(h);
  }
  r.iterated = r.st.ent.size();
  std::sort(r.st.ent.begin(), r.st.ent.end());
  r.dup = std::adjacent_find(r.st.ent.begin(), r.st.ent.end()) != r.st.ent.end();
  r.last = r.st.ent.empty() ? 0 : r.st.ent.back();
  return r;
}

// ------------------------------------------------------------------ models (plain sorted-set algebra)
static State model_union(const std::vector<const State*>& ins, uint64_t theta0u, uint64_t k, uint64_t* presize = nullptr) {
  State o; o.empty = true; o.theta = theta0u;
  for (auto* s : ins) if (!s->empty) { o.empty = false; o.theta = std::min(o.theta, s->theta); }
  if (presize) *presize = 0;
  if (o.empty) return o;
  Vec u;
  for (auto* s : ins) { if (s->empty) continue; for (uint64_t h : s->ent) { if (h >= o.theta) break; u.push_back(h); } }
  std::sort(u.begin(), u.end());
  u.erase(std::unique(u.begin(), u.end()), u.end());
  if (presize) *presize = u.size();
  if (u.size() > k) { o.theta = u[k]; u.resize(k); }
  o.ent.swap(u);
  return o;
}

static State model_inter(const std::vector<const State*>& ins) {
  State o; o.theta = MAXT; o.empty = false;
  for (auto* s : ins) if (s->empty) { o.empty = true; return o; }
  for (auto* s : ins) o.theta = std::min(o.theta, s->theta);
  bool first = true;
  for (auto* s : ins) {
    if (first) { for (uint64_t h : s->ent) { if (h >= o.theta) break; o.ent.push_back(h); } first = false; }
    else { Vec t; std::set_intersection(o.ent.begin(), o.ent.end(), s->ent.begin(), s->ent.end(), std::back_inserter(t)); o.ent.swap(t); }
  }
  o.empty = o.ent.empty() && o.theta == MAXT;   // exact result with no entries is the empty set
  return o;
}

static State model_anotb(const State& a, const State& b) {
  State o;
  if (a.empty) { o.empty = true; o.theta = a.theta; return o; }
  if (b.empty) return a;
  o.theta = std::min(a.theta, b.theta);
  Vec d; std::set_difference(a.ent.begin(), a.ent.end(), b.ent.begin(), b.ent.end(), std::back_inserter(d));
  for (uint64_t h : d) { if (h >= o.theta) break; o.ent.push_back(h); }
  o.empty = o.ent.empty() && o.theta == MAXT;
  return o;
}

// ------------------------------------------------------------------ one logical input in all forms
struct Input {
  State st; int cls = C_EMPTY;
  bool derived = false;
  std::string desc;
  std::unique_ptr<update_theta_sketch> upd;
  std::unique_ptr<compact_theta_sketch> f[F_N];   // compact / deserialized forms
  std::vector<uint8_t> wb[F_N];                    // bytes under the wrapped forms
  std::unique_ptr<wrapped_compact_theta_sketch> w[F_N];   // wrapped forms
  bool ordered[F_N];     // ordered flag of each form
  uint64_t last = 0;     // largest entry
};

static int eff_form(const Input& in, int form) { return (form == F_UPD && !in.upd) ? F_CU : form; }

// operand with its concrete static type (update / compact / wrapped)
template<typename F> static void with_form(const Input& in, int form, F&& fn) {
  switch (eff_form(in, form)) {
    case F_UPD: fn(*in.upd); return;
    default: if (form_wrapped(form)) fn(*in.w[form]); else fn(*in.f[eff_form(in, form)]); return;
  }
}
// operand through the polymorphic base class theta_sketch (update and compact forms) or wrapped: 2 static types,
// used where two operands are combined (keeps the number of template instantiations down)
template<typename F> static void with_form2(const Input& in, int form, F&& fn) {
  switch (eff_form(in, form)) {
    case F_UPD: fn(static_cast<const theta_sketch&>(*in.upd)); return;
    default: if (form_wrapped(form)) fn(*in.w[form]); else fn(static_cast<const theta_sketch&>(*in.f[eff_form(in, form)])); return;
  }
}

static void check_form(Input& in, int form, const std::string& ctx) {
  with_form(in, form, [&](const auto& s) {
    Raw r = read_raw(s);
    const std::string fk = std::string("form|") + form_name[form] + "|";
    const std::string d = ctx + " input=" + in.desc + " form=" + form_name[form] + " source=" + sstr(in.st) + " got=" + sstr(r.st);
    VF_CHECK(r.st == in.st, fk + "readout-differs-from-source", d);
    VF_CHECK(!r.dup, fk + "duplicate-entry", d);
    VF_CHECK(r.num_retained == r.iterated, fk + "num_retained-vs-iteration", d);
    if (r.ordered_flag) VF_CHECK(r.ascending, fk + "ordered-but-not-ascending", d);
    in.ordered[form] = r.ordered_flag;
  });
}

// ------------------------------------------------------------------ hand-built legacy images
static void put_le(std::vector<uint8_t>& b, size_t off, uint64_t v, int n) { for (int i = 0; i < n; ++i) b[off + i] = static_cast<uint8_t>(v >> (8 * i)); }
static void put_entries(std::vector<uint8_t>& b, size_t off, const Vec& e) { for (size_t i = 0; i < e.size(); ++i) put_le(b, off + 8 * i, e[i], 8); }

// serial version 1: always 3 preamble longs, no seed hash, no flags; empty <=> numEntries == 0 and theta == MAX
//   byte0 preLongs=3, 1 serVer=1, 2 type=3, 3-7 unused | u32 numEntries @8, u32 unused | u64 theta @16 | ordered entries @24
static std::vector<uint8_t> legacy_image_v1(const State& st) {
  std::vector<uint8_t> b(24 + 8 * st.ent.size(), 0);
  b[0] = 3; b[1] = 1; b[2] = 3;
  put_le(b, 8, st.ent.size(), 4);
  put_le(b, 16, st.empty ? MAXT : st.theta, 8);
  put_entries(b, 24, st.ent);
  return b;
}

// serial version 2: byte0 preLongs (1 empty | 2 exact | 3 estimation), 1 serVer=2, 2 type=3, 3-5 unused, 6-7 seed hash |
//   [u32 numEntries @8, u32 unused] | [u64 theta @16] | ordered entries
static std::vector<uint8_t> legacy_image_v2(const State& st, uint64_t seed, Rng& r, std::string& variant) {
  int pre;
  if (st.empty) { pre = 1 + static_cast<int>(r.below(3)); variant = "empty-pre" + std::to_string(pre); }
  else if (st.theta == MAXT) { pre = r.chance(0.7) ? 2 : 3; variant = "exact-pre" + std::to_string(pre); }
  else { pre = 3; variant = st.ent.empty() ? "zero-pre3" : "est-pre3"; }
  std::vector<uint8_t> b(8 * pre + 8 * st.ent.size(), 0);
  b[0] = static_cast<uint8_t>(pre); b[1] = 2; b[2] = 3;
  if (r.coin()) b[5] = 0x1A;   // flags as Java wrote them (read-only | compact | ordered); not interpreted for v2
  put_le(b, 6, ref_seed_hash(seed), 2);
  if (pre >= 2) put_le(b, 8, st.ent.size(), 4);
  if (pre == 3) put_le(b, 16, st.empty ? MAXT : st.theta, 8);
  put_entries(b, 8 * pre, st.ent);
  return b;
}

// serial version 3 as Java writes / wrote it: flags bit1 read-only, bit2 empty, bit3 compact, bit4 ordered, bit5 single item
//   empty: 8 bytes with the empty flag, or a longer preamble (2 or 3 longs: numEntries 0, theta MAX) with the empty flag;
//   one exact entry: preLongs=1 with the single-item flag, entry @8; exact: preLongs 2, or 3 with an explicit theta = MAX;
//   estimation: preLongs 3; entries ordered (flag set) or not (flag clear)
static std::vector<uint8_t> legacy_image_v3j(const State& st, uint64_t seed, Rng& r, std::string& variant) {
  int pre; uint8_t flags = 0x02 | 0x08;
  Vec e = st.ent;
  bool single = false;
  if (st.empty) { pre = 1 + static_cast<int>(r.below(3)); flags |= 0x04 | 0x10; variant = "empty-flag-pre" + std::to_string(pre); }
  else if (st.theta == MAXT && e.size() == 1 && r.chance(0.7)) { pre = 1; flags |= 0x10 | 0x20; single = true; variant = "single-item-flag"; }
  else if (st.theta == MAXT) { pre = r.chance(0.6) ? 2 : 3; variant = "exact-pre" + std::to_string(pre); }
  else { pre = 3; variant = e.empty() ? "zero-pre3" : "est-pre3"; }
  if (!st.empty && !single) {
    if (e.size() >= 2 && r.coin()) { std::reverse(e.begin(), e.end()); if (e.size() > 3) std::swap(e[0], e[e.size() / 2]); variant += "-unordered"; }
    else { flags |= 0x10; variant += "-ordered"; }
  }
  std::vector<uint8_t> b(single ? 16 : 8 * pre + 8 * e.size(), 0);
  b[0] = static_cast<uint8_t>(pre); b[1] = 3; b[2] = 3; b[5] = flags;
  put_le(b, 6, ref_seed_hash(seed), 2);
  if (single) { put_le(b, 8, e[0], 8); return b; }
  if (pre >= 2) put_le(b, 8, e.size(), 4);
  if (pre == 3) put_le(b, 16, st.empty ? MAXT : st.theta, 8);
  put_entries(b, 8 * pre, e);
  return b;
}

// builds all physical forms from an ordered and an unordered compact source
static void build_forms(Input& in, const compact_theta_sketch& co, const compact_theta_sketch& cu, uint64_t seed, Rng& r, const std::string& ctx) {
  in.f[F_CO].reset(new compact_theta_sketch(co));
  in.f[F_CU].reset(new compact_theta_sketch(cu));
  {
    auto b = (r.coin() ? co : cu).serialize();
    in.f[F_DB].reset(new compact_theta_sketch(compact_theta_sketch::deserialize(b.data(), b.size(), seed)));
  }
  {
    auto b = co.serialize_compressed();
    in.f[F_DC].reset(new compact_theta_sketch(compact_theta_sketch::deserialize(b.data(), b.size(), seed)));
  }
  {
    std::stringstream ss(std::ios::in | std::ios::out | std::ios::binary);
    switch (r.below(3)) { case 0: co.serialize(ss); break; case 1: cu.serialize(ss); break; default: co.serialize_compressed(ss); }
    in.f[F_DS].reset(new compact_theta_sketch(compact_theta_sketch::deserialize(ss, seed)));
  }
  {
    auto b = (r.coin() ? co : cu).serialize();
    in.wb[F_WU].assign(b.begin(), b.end());
    in.w[F_WU].reset(new wrapped_compact_theta_sketch(wrapped_compact_theta_sketch::wrap(in.wb[F_WU].data(), in.wb[F_WU].size(), seed)));
  }
  {
    auto b = co.serialize_compressed();
    in.wb[F_WC].assign(b.begin(), b.end());
    in.w[F_WC].reset(new wrapped_compact_theta_sketch(wrapped_compact_theta_sketch::wrap(in.wb[F_WC].data(), in.wb[F_WC].size(), seed)));
  }
  // legacy images of the same logical state, each through wrap / deserialize(bytes) / deserialize(stream)
  for (int ver = 1; ver <= 3; ++ver) {
    const int fw = ver == 1 ? F_L1W : ver == 2 ? F_L2W : F_L3W;
    for (int path = 0; path < 3; ++path) {     // a separately drawn variant of the image per path
      std::string variant;
      std::vector<uint8_t> img = ver == 1 ? legacy_image_v1(in.st) : ver == 2 ? legacy_image_v2(in.st, seed, r, variant) : legacy_image_v3j(in.st, seed, r, variant);
      if (ver == 1) variant = cls_name[classify(in.st)];
      count(std::string("legacy_image|v") + (ver == 3 ? "3j" : std::to_string(ver)) + "|" + variant);
      if (path == 0) {
        in.wb[fw] = img;
        in.w[fw].reset(new wrapped_compact_theta_sketch(wrapped_compact_theta_sketch::wrap(in.wb[fw].data(), in.wb[fw].size(), seed)));
      } else if (path == 1) {
        in.f[fw + 1].reset(new compact_theta_sketch(compact_theta_sketch::deserialize(img.data(), img.size(), seed)));
      } else {
        std::stringstream ss(std::ios::in | std::ios::out | std::ios::binary);
        ss.write(reinterpret_cast<const char*>(img.data()), static_cast<std::streamsize>(img.size()));
        in.f[fw + 2].reset(new compact_theta_sketch(compact_theta_sketch::deserialize(ss, seed)));
      }
    }
  }
  for (int fm = 0; fm < F_N; ++fm) { if (fm == F_UPD && !in.upd) { in.ordered[fm] = false; continue; } check_form(in, fm, ctx); }
  VF_CHECK(in.ordered[F_CO], "form|cord|ordered-flag-not-set", ctx + " input=" + in.desc);
}

// ------------------------------------------------------------------ comparing a result with the model
// kp: key prefix ("union", "intersection", ...).  theta_alt: additionally accepted theta (used for the empty union with p<1)
static void check_result(const compact_theta_sketch& res, const State& exp, bool ordered_req, const std::string& kp,
                         const std::string& ctx, uint64_t seed, bool theta_alt_valid = false, uint64_t theta_alt = 0) {
  Raw r = read_raw(res);
  const std::string d = ctx + " expected=" + sstr(exp) + " got=" + sstr(r.st) + " ordered_req=" + (ordered_req ? "1" : "0");
  VF_CHECK(r.st.empty == exp.empty, kp + "|is_empty", d);
  VF_CHECK(r.st.theta == exp.theta || (theta_alt_valid && r.st.theta == theta_alt), kp + "|theta", d);
  VF_CHECK(!r.dup, kp + "|duplicate-entry", d);
  if (r.st.ent != exp.ent) {
    Vec missing, extra;
    std::set_difference(exp.ent.begin(), exp.ent.end(), r.st.ent.begin(), r.st.ent.end(), std::back_inserter(missing));
    std::set_difference(r.st.ent.begin(), r.st.ent.end(), exp.ent.begin(), exp.ent.end(), std::back_inserter(extra));
    std::string dd = d;
    if (!missing.empty()) dd += " missing=" + std::to_string(missing.size()) + " first-missing=" + std::to_string(missing[0]);
    if (!extra.empty()) dd += " extra=" + std::to_string(extra.size()) + " first-extra=" + std::to_string(extra[0]) + (extra[0] >= exp.theta ? "(>=theta)" : "");
    checked();
    if (!missing.empty()) fail(kp + "|entry-missing", dd);
    if (!extra.empty()) fail(kp + "|entry-extra", dd);
  } else checked();
  VF_CHECK(r.num_retained == r.iterated, kp + "|num_retained-vs-iteration", d);
  if (ordered_req) VF_CHECK(r.ordered_flag, kp + "|ordered-requested-flag-not-set", d);
  if (r.ordered_flag) VF_CHECK(r.ascending, kp + "|ordered-not-strictly-ascending", d);
  for (uint64_t h : r.st.ent) if (h >= r.st.theta || h == 0) { checked(); fail(kp + "|entry-not-below-own-theta", d + " h=" + std::to_string(h)); break; }
  VF_CHECK(r.seed_hash == ref_seed_hash(seed), kp + "|seed-hash", d);
}

static void tally(const char* op, bool first, const Input& in, int form) {
  count(std::string(op) + (first ? "1|" : "2|") + form_name[eff_form(in, form)] + "|" + cls_name[in.cls]);
}

static uint64_t theta0_of(float p) { return p < 1 ? static_cast<uint64_t>(static_cast<double>(MAXT) * p) : MAXT; }

struct Spec { int kind; uint8_t lg_k; float p; uint64_t start, n; int rf; };

static std::string order_str(const std::vector<int>& ord, const std::vector<int>& forms, size_t upto) {
  std::string s = "order=[";
  for (size_t i = 0; i < ord.size(); ++i) {
    if (i == upto) s += "| ";
    s += std::to_string(ord[i]) + ":" + form_name[forms[i]] + " ";
  }
  return s + "]";
}

struct Family {
  uint64_t seed = 0, base = 0;
  bool big = false;
  int nin = 0;
  std::vector<std::unique_ptr<Input>> ins;
  std::string desc;
};

// Generates one family of logical inputs (pure function of r and the tier).
static void make_family(Family& fam, Rng& r) {
  const bool T = G().thorough();
  const uint64_t seed = fam.seed = r.chance(0.5) ? DEFAULT_SEED : r.next();
  const bool big = fam.big = T && r.chance(0.003);
  const int nin = fam.nin = big ? static_cast<int>(r.range(2, 3)) : (r.chance(0.25) ? 2 : (r.chance(0.45) ? 3 : (r.chance(0.75) ? 4 : 5)));
  const uint64_t base = fam.base = r.next() & 0xffffffffffULL;
  // (theta_a_not_b's lookup table degenerates to O(n * table size) when B holds between 1/2 and 15/16 of a power of
  // two entries — a performance defect outside this property — so "big" stays at <= 2^14 nominal entries)
  const int maxlg = big ? (r.chance(0.25) ? 14 : 13) : (T ? 11 : 9);
  const int minlg = big ? 12 : 5;
  std::vector<std::unique_ptr<Input>>& ins = fam.ins;
  std::string& desc = fam.desc;

  // ---------------------------------------------------------------- build logical inputs
  desc = "seed=" + std::to_string(seed) + " base=" + std::to_string(base) + " n=" + std::to_string(nin) + " inputs=[";
  uint64_t prev_start = 0, prev_n = 0;
  theta_a_not_b anb(seed);
  for (int i = 0; i < nin; ++i) {
    std::unique_ptr<Input> in(new Input());
    const uint64_t kroll = r.below(100);
    // 0 empty, 1 exact, 2 estimation, 3 zero-retained (tiny p), 4 p-sampled, 5 derived from two earlier inputs
    int kind = kroll < 12 ? 0 : kroll < 40 ? 1 : kroll < 68 ? 2 : kroll < 78 ? 3 : kroll < 90 ? 4 : 5;
    if (kind == 5 && i < 2) kind = 1 + static_cast<int>(r.below(2));
    if (kind == 5) {
      const int a = static_cast<int>(r.below(i)), b = static_cast<int>(r.below(i));
      const int fa = static_cast<int>(r.below(F_N)), fb = static_cast<int>(r.below(F_N));
      in->derived = true;
      std::unique_ptr<compact_theta_sketch> co, cu;
      if (r.coin()) {
        in->desc = "derived(inter " + std::to_string(a) + "," + std::to_string(b) + ")";
        theta_intersection ti(seed);
        with_form2(*ins[a], fa, [&](const auto& s) { ti.update(s); });
        with_form2(*ins[b], fb, [&](const auto& s) { ti.update(s); });
        co.reset(new compact_theta_sketch(ti.get_result(true)));
        cu.reset(new compact_theta_sketch(ti.get_result(false)));
      } else {
        in->desc = "derived(anotb " + std::to_string(a) + "," + std::to_string(b) + ")";
        // use unordered-capable forms for A so that the unordered source really can be unordered
        with_form2(*ins[a], F_CU, [&](const auto& sa) {
          with_form2(*ins[b], fb, [&](const auto& sb) {
            co.reset(new compact_theta_sketch(anb.compute(sa, sb, true)));
            cu.reset(new compact_theta_sketch(anb.compute(sa, sb, false)));
          });
        });
      }
      in->st = read_raw(*co).st;
      in->cls = classify(in->st);
      describe(desc + in->desc + " ...");
      build_forms(*in, *co, *cu, seed, r, desc);
      count("derived_inputs");
    } else {
      Spec sp; sp.kind = kind;
      sp.lg_k = static_cast<uint8_t>(r.chance(0.6) ? r.range(minlg, std::min(maxlg, minlg + 2)) : r.range(minlg, maxlg));
      sp.rf = static_cast<int>(r.below(4));
      const uint64_t k = 1ULL << sp.lg_k;
      sp.p = 1.0f;
      switch (kind) {
        case 0: sp.n = 0; if (r.chance(0.3)) sp.p = 0.5f; break;
        case 1: sp.n = r.chance(0.15) ? 1 : (r.chance(0.15) ? k : 1 + r.below(k)); break;
        case 2: sp.n = r.chance(0.3) ? k + 1 + r.below(k / 2) : k + 1 + r.below(big ? 2 * k : 5 * k); if (r.chance(0.15)) sp.p = 0.5f; break;
        case 3: sp.n = 1 + r.below(10); sp.p = r.coin() ? 1e-6f : 1e-9f; break;
        default: { static const float ps[] = {0.5f, 0.25f, 0.1f, 0.9f, 0.01f, 0.75f}; sp.p = ps[r.below(6)]; sp.n = 1 + r.below(big ? 2 * k : 3 * k); break; }
      }
      // planned overlaps: same range as previous / chained overlap / nested / disjoint
      const uint64_t o = r.below(100);
      if (i == 0 || o < 10) sp.start = r.below(64);
      else if (o < 25) { sp.start = prev_start; if (r.coin() && kind != 0 && kind != 3) sp.n = std::max<uint64_t>(prev_n, 1); }   // identical item set
      else if (o < 60) sp.start = prev_start + (prev_n ? r.below(prev_n) : 0);          // chained overlap
      else if (o < 80) sp.start = prev_start + prev_n / 4;                               // overlap
      else if (o < 90) sp.start = prev_start + prev_n + r.below(8);                       // disjoint, adjacent
      else sp.start = r.below(prev_start + prev_n + 1);
      in->desc = std::string("k") + std::to_string(kind) + "(lg_k=" + std::to_string(sp.lg_k) + " p=" + str(sp.p) + " rf=" + std::to_string(sp.rf) +
        " items=" + std::to_string(sp.start) + "+" + std::to_string(sp.n) + ")";
      describe(desc + in->desc + " ...");
      in->upd.reset(new update_theta_sketch(update_theta_sketch::builder().set_lg_k(sp.lg_k).set_p(sp.p)
        .set_resize_factor(static_cast<update_theta_sketch::resize_factor>(sp.rf)).set_seed(seed).build()));
      for (uint64_t j = 0; j < sp.n; ++j) in->upd->update(static_cast<uint64_t>(base + sp.start + j));
      if (kind == 0 && r.coin()) in->upd->update(std::string());   // ignored: stays empty
      if (kind == 2 && r.chance(0.2)) in->upd->trim();
      in->st = read_raw(*in->upd).st;
      in->cls = classify(in->st);
      if (sp.n) { prev_start = sp.start; prev_n = sp.n; }
      compact_theta_sketch co = in->upd->compact(true), cu = in->upd->compact(false);
      build_forms(*in, co, cu, seed, r, desc);
    }
    in->last = in->st.ent.empty() ? 0 : in->st.ent.back();
    desc += in->desc + "=" + cls_name[in->cls] + sstr(in->st) + " ";
    count(std::string("input_class_") + cls_name[in->cls]);
    ins.push_back(std::move(in));
  }
  desc += "]";
  describe(desc);
  count("families_n" + std::to_string(nin));
  if (big) count("families_big");
}

} // namespace vf
#endif
