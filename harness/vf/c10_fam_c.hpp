// C10 group C: VarOpt, VarOpt union, EBPPS (C1) and t-digest, Bloom filter, density (C2).
// Units including this header are compiled with -fno-access-control: t-digest centroids and the VarOpt-union preamble fields
// have no public getter, so the decoder cross-check reads the private members (read only).
#ifndef VF_C10_FAM_C_HPP
#define VF_C10_FAM_C_HPP

#include "c10_common.hpp"
#if !defined(C10_C1) && !defined(C10_C2)
#define C10_C1
#define C10_C2
#endif
#ifdef C10_C1
#include <var_opt_sketch.hpp>
#include <var_opt_union.hpp>
#include <ebpps_sketch.hpp>
#endif
#ifdef C10_C2
#include <tdigest.hpp>
#include <bloom_filter.hpp>
#include <density_sketch.hpp>
#endif

namespace vf { namespace c10 {
using namespace datasketches;

template<typename T> struct GenItemC;
template<> struct GenItemC<int64_t> { static int64_t make(Rng& r, uint64_t dom) { return int64_t(r.below(dom)) - int64_t(dom / 3); } };
template<> struct GenItemC<double> { static double make(Rng& r, uint64_t dom) { return double(r.below(dom)) * 0.125 - 1e6; } };
template<> struct GenItemC<std::string> { static std::string make(Rng& r, uint64_t dom) {
  uint64_t x = r.below(dom); std::string s; const size_t len = r.below(r.chance(0.1) ? 30 : 8);
  for (size_t i = 0; i < len; ++i) { s += char('a' + x % 26); x = x / 26 + 11 * (i + 1); }
  return s; } };

#ifdef C10_C1
// ------------------------------------------------------------------- VarOpt
template<typename T> void varopt_feed(var_opt_sketch<T>& s, Rng& r, uint64_t n, int wmode) {
  for (uint64_t i = 0; i < n; ++i) {
    double w = wmode == 0 ? 1.0 : wmode == 1 ? 1.0 + double(r.below(1000)) * 0.01 : (r.chance(0.05) ? 1e4 * (1 + r.below(50)) : 1.0 + double(r.below(100)));
    s.update(GenItemC<T>::make(r, 1ULL << 30), w);
  }
}
template<typename T> var_opt_sketch<T> gen_varopt(int variant, Rng& r, bool small) {
  const int state = variant % 6;
  static const uint32_t ks[] = {1, 8, 32, 100};
  const uint32_t k = small ? ks[1 + (variant / 6) % 2] : ks[r.below(4)];
  var_opt_sketch<T> s(k, static_cast<resize_factor>(small ? (variant / 12) % 4 : r.below(4)));
  switch (state) {
    case 0: break;
    case 1: varopt_feed(s, r, 1, 1); break;
    case 2: varopt_feed(s, r, 1 + r.below(k), 1); break;                  // warm-up: r == 0
    case 3: varopt_feed(s, r, k + 1 + r.below(small ? 200 : 20000), 0); break;   // equal weights: h == 0
    case 4: varopt_feed(s, r, k + 1 + r.below(small ? 200 : 20000), 2); break;   // heavy items stay in H
    default: varopt_feed(s, r, k + 1, 1); break;                           // r == 1 boundary
  }
  return s;
}
template<typename T> std::string write_varopt(const var_opt_sketch<T>& s, bool stream) { if (stream) { std::ostringstream os; s.serialize(os); return os.str(); } return to_str(s.serialize()); }
template<typename T> var_opt_sketch<T> read_varopt(const std::string& img, bool stream) {
  if (stream) { std::istringstream is(img); return var_opt_sketch<T>::deserialize(is); }
  return var_opt_sketch<T>::deserialize(img.data(), img.size());
}
template<typename T> void varopt_items(const var_opt_sketch<T>& s, std::vector<T>& items, std::vector<double>& w) {
  for (auto it = s.begin(); it != s.end(); ++it) { auto p = *it; items.push_back(T(p.first)); w.push_back(p.second); }
}
template<typename T> std::string readout_varopt(const var_opt_sketch<T>& s, const char* fam = "varopt") {
  J j; j.put("family", std::string(fam));
  j.put("is_empty", s.is_empty()).put("k", s.get_k()).put("n", s.get_n()).put("num_samples", s.get_num_samples());
  std::vector<T> items; std::vector<double> w;
  varopt_items(s, items, w);
  j.arr("items", items).arr("weights", w);
  return j.done();
}
template<typename T> void check_varopt_fields(const VarOpt<T>& d, const var_opt_sketch<T>& s, const std::string& fam, const std::string& ctx) {
  VF_CHECK(d.k == s.get_k(), fam + "|image-vs-api|k", ctx);
  VF_CHECK(d.empty == s.is_empty(), fam + "|image-vs-api|empty-flag", ctx);
  if (d.empty) return;
  VF_CHECK(d.n == s.get_n(), fam + "|image-vs-api|n", ctx);
  VF_CHECK(d.h + d.r == s.get_num_samples(), fam + "|image-vs-api|h-plus-r-vs-num-samples", ctx);
  std::vector<T> items; std::vector<double> w;
  varopt_items(s, items, w);
  VF_CHECK(items == d.items, fam + "|image-vs-api|items-or-order", ctx);
  std::vector<double> dw = d.weights;
  for (uint32_t i = 0; i < d.r; ++i) dw.push_back(d.total_wt_r / d.r);
  VF_CHECK(same_bits(dw, w), fam + "|image-vs-api|weights", ctx + " h=" + std::to_string(d.h) + " r=" + std::to_string(d.r));
}
template<typename T> void register_varopt(const std::string& name, int nvariants) {
  Family f; f.name = name; f.group = 3; f.nvariants = nvariants;
  f.build = [](int v, Rng& r, bool small) { auto s = gen_varopt<T>(v, r, small); return Built{write_varopt(s, false), readout_varopt(s)}; };
  f.read = [](const std::string& img, bool stream, int) { return readout_varopt(read_varopt<T>(img, stream)); };
  f.decode_case = [name](int v, Rng& r, bool small) {
    auto s = gen_varopt<T>(v, r, small);
    const std::string ctx = "variant=" + std::to_string(v) + " k=" + std::to_string(s.get_k()) + " n=" + std::to_string(s.get_n());
    const std::string b = write_varopt(s, false), st = write_varopt(s, true);
    check_header_variants("varopt", b, [&](unsigned h) { return s.serialize(h); }, ctx);
    for (int p = 0; p < (b == st ? 1 : 2); ++p) {
      const std::string& img = p ? st : b;
      VarOpt<T> d = decode_varopt<T>(img.data(), img.size());
      check_varopt_fields(d, s, "varopt", ctx + (p ? " path=stream" : " path=bytes"));
      VF_CHECK(d.rf == uint8_t(s.rf_), "varopt|image|resize-factor-bits", ctx);
      count(d.empty ? "varopt_empty" : d.r == 0 ? "varopt_warmup" : d.h == 0 ? "varopt_all_in_r" : "varopt_h_and_r");
      sig(mix64(mix64(d.n, d.k), mix64(d.h, d.r)));
    }
    if (b != st) count(name + "_paths_differ");
    count("decoded_" + name);
  };
  families().push_back(f);
}

// ------------------------------------------------------------------- VarOpt union
template<typename T> var_opt_union<T> gen_varopt_union(int variant, Rng& r, bool small) {
  const int state = variant % 5;
  const uint32_t max_k = small ? 8 + 8 * ((variant / 5) % 2) : uint32_t(1 + r.below(60));
  var_opt_union<T> u(max_k);
  auto part = [&](uint32_t k, uint64_t n, int wmode) { var_opt_sketch<T> s(k); varopt_feed(s, r, n, wmode); u.update(s); };
  switch (state) {
    case 0: break;
    case 1: part(max_k, 1 + r.below(max_k), 1); break;                                             // warm-up gadget
    case 2: part(max_k, 3 * max_k, 1); part(max_k, 1 + r.below(small ? 100 : 5000), 2); break;     // full sketches
    case 3: part(std::max<uint32_t>(1, max_k / 2), 10 * max_k, 2); part(max_k * 2, 5 * max_k, 0); break;   // different k: outer tau
    default: part(max_k, 2, 1); part(max_k, 4 * max_k, 2); part(max_k, 3, 0); break;
  }
  return u;
}
template<typename T> std::string write_varopt_union(const var_opt_union<T>& s, bool stream) { if (stream) { std::ostringstream os; s.serialize(os); return os.str(); } return to_str(s.serialize()); }
template<typename T> var_opt_union<T> read_varopt_union(const std::string& img, bool stream) {
  if (stream) { std::istringstream is(img); return var_opt_union<T>::deserialize(is); }
  return var_opt_union<T>::deserialize(img.data(), img.size());
}
// The union has no public getters besides get_result(), whose marked-item resolution is an algorithm of its own (several fix:
// commits changed it) rather than a property of the image.  The read-out therefore records the stored state (private members,
// read only) and adds the public result only when the gadget has no marked items (get_result() is then a plain copy).
template<typename T> std::string readout_varopt_union(const var_opt_union<T>& u) {
  J j; j.put("family", std::string("varopt_union"));
  j.put("max_k", u.max_k_).put("n", u.n_).put("outer_tau_numer", u.outer_tau_numer_).put("outer_tau_denom", u.outer_tau_denom_);
  const var_opt_sketch<T>& g = u.gadget_;
  j.put("gadget_k", g.k_).put("gadget_h", g.h_).put("gadget_r", g.r_).put("gadget_n", g.n_).put("gadget_total_wt_r", g.total_wt_r_).put("gadget_marks_in_h", g.num_marks_in_h_);
  std::vector<T> items; std::vector<double> w; std::vector<uint32_t> marks;
  for (uint32_t i = 0; i < g.h_; ++i) { items.push_back(g.data_[i]); w.push_back(g.weights_[i]); marks.push_back(g.marks_ != nullptr && g.marks_[i] ? 1 : 0); }
  for (uint32_t i = g.h_ + 1; i < g.h_ + 1 + g.r_; ++i) items.push_back(g.data_[i]);
  j.arr("gadget_items", items).arr("gadget_h_weights", w).arr("gadget_h_marks", marks);
  if (g.num_marks_in_h_ == 0) {
    pin_lib_rng(4242);
    const var_opt_sketch<T> res = u.get_result();
    std::vector<T> ri; std::vector<double> rw;
    varopt_items(res, ri, rw);
    j.put("result_k", res.get_k()).put("result_n", res.get_n()).arr("result_items", ri).arr("result_weights", rw);
  }
  return j.done();
}
template<typename T> void register_varopt_union(const std::string& name, int nvariants) {
  Family f; f.name = name; f.group = 3; f.nvariants = nvariants;
  f.build = [](int v, Rng& r, bool small) { auto u = gen_varopt_union<T>(v, r, small); return Built{write_varopt_union(u, false), readout_varopt_union(u)}; };
  f.read = [](const std::string& img, bool stream, int) { return readout_varopt_union(read_varopt_union<T>(img, stream)); };
  f.decode_case = [name](int v, Rng& r, bool small) {
    auto u = gen_varopt_union<T>(v, r, small);
    const std::string ctx = "variant=" + std::to_string(v);
    const std::string b = write_varopt_union(u, false), st = write_varopt_union(u, true);
    check_header_variants("varopt_union", b, [&](unsigned h) { return u.serialize(h); }, ctx);
    for (int p = 0; p < (b == st ? 1 : 2); ++p) {
      const std::string& img = p ? st : b;
      VarOptUnion<T> d = decode_varopt_union<T>(img.data(), img.size());
      const std::string c2 = ctx + (p ? " path=stream" : " path=bytes");
      VF_CHECK(d.max_k == u.max_k_, "varopt_union|image-vs-state|max-k", c2);
      VF_CHECK(d.empty == (u.n_ == 0), "varopt_union|image-vs-state|empty-flag", c2);
      if (!d.empty) {
        VF_CHECK(d.n == u.n_, "varopt_union|image-vs-state|n", c2);
        VF_CHECK(d.outer_tau_numer == u.outer_tau_numer_ && d.outer_tau_denom == u.outer_tau_denom_, "varopt_union|image-vs-state|outer-tau", c2);
        check_varopt_fields(d.gadget, u.gadget_, "varopt_union|gadget", c2);
        VF_CHECK(d.gadget.gadget, "varopt_union|image|gadget-flag-bit7-missing", c2);
        uint32_t marks = 0; for (bool m : d.gadget.marks) marks += m;
        VF_CHECK(marks == u.gadget_.num_marks_in_h_, "varopt_union|image-vs-state|marks", c2 + " stored=" + std::to_string(marks));
        bool same_marks = d.gadget.marks.size() == d.gadget.h;
        for (uint32_t i = 0; same_marks && i < d.gadget.h; ++i) same_marks = d.gadget.marks[i] == (u.gadget_.marks_ != nullptr && u.gadget_.marks_[i]);
        VF_CHECK(same_marks, "varopt_union|image-vs-state|mark-bit-positions", c2);
        pin_lib_rng(99);
        VF_CHECK(u.get_result().get_n() == d.n, "varopt_union|image-vs-api|n-vs-result-n", c2);
        if (marks > 0) count("varopt_union_with_marks");
        if (d.outer_tau_denom > 0) count("varopt_union_outer_tau");
      }
      count(d.empty ? "varopt_union_empty" : "varopt_union_nonempty");
      sig(mix64(mix64(d.n, d.max_k), mix64(d.gadget.h, d.gadget.r)));
    }
    count("decoded_" + name);
  };
  families().push_back(f);
}

// ------------------------------------------------------------------- EBPPS
template<typename T> ebpps_sketch<T> gen_ebpps(int variant, Rng& r, bool small) {
  const int state = variant % 5;
  static const uint32_t ks[] = {1, 6, 25, 100};
  const uint32_t k = small ? ks[1 + (variant / 5) % 2] : ks[r.below(4)];
  ebpps_sketch<T> s(k);
  auto feed = [&](ebpps_sketch<T>& sk, uint64_t n, int wmode) {
    for (uint64_t i = 0; i < n; ++i) sk.update(GenItemC<T>::make(r, 1ULL << 30), wmode == 0 ? 1.0 : 0.5 + double(r.below(400)) * 0.01 + (r.chance(0.05) ? 30.0 : 0.0));
  };
  switch (state) {
    case 0: break;
    case 1: feed(s, 1 + r.below(k), 0); break;                          // fewer than k, c integral
    case 2: feed(s, k + r.below(small ? 200 : 20000), 0); break;         // equal weights: c == k
    case 3: feed(s, 1 + r.below(small ? 200 : 20000), 1); break;         // varied weights: fractional c, partial item
    default: {
#ifdef C10_PINNED_TREE
      // corpus v0 is written by the pinned tree, whose EBPPS merge is broken (see below; can crash in get_result): un-merged state
      feed(s, 1 + r.below(200), 1); break;
#endif
      ebpps_sketch<T> o(k); feed(o, 1 + r.below(small ? 100 : 5000), 1); feed(s, 1 + r.below(small ? 100 : 5000), 1); s.merge(o);
      // Genuine library defect (not a layout question): merge can leave c ahead of the stored sample (an item whose contribution
      // rounds to 1+eps is kept as a partial item).  Such a sketch cannot be serialized into a readable image (and trips UBSan in
      // the writer), so it is reported here under its own key and replaced by an un-merged state.
      const size_t got = s.get_result().size(); const double c = s.get_c();
      checked();
      if (double(got) < std::floor(c) || double(got) > std::ceil(c)) {
        fail("ebpps|merge|sample-size-inconsistent-with-c", "k=" + std::to_string(k) + " n=" + std::to_string(s.get_n()) + " c=" + str(c) + " result size=" + std::to_string(got));
        count("ebpps_merge_inconsistent_state_replaced");
        ebpps_sketch<T> s2(k); feed(s2, 1 + r.below(small ? 200 : 20000), 1); return s2;
      }
      break;
    }
  }
  return s;
}
template<typename T> std::string write_ebpps(const ebpps_sketch<T>& s, bool stream) { if (stream) { std::ostringstream os; s.serialize(os); return os.str(); } return to_str(s.serialize()); }
template<typename T> ebpps_sketch<T> read_ebpps(const std::string& img, bool stream) {
  if (stream) { std::istringstream is(img); return ebpps_sketch<T>::deserialize(is); }
  return ebpps_sketch<T>::deserialize(img.data(), img.size());
}
template<typename T> std::string readout_ebpps(const ebpps_sketch<T>& s) {
  J j; j.put("family", std::string("ebpps"));
  j.put("is_empty", s.is_empty()).put("k", s.get_k()).put("n", s.get_n()).put("cumulative_weight", s.get_cumulative_weight()).put("c", s.get_c());
  pin_lib_rng(777);     // the partial item is included in the result with probability frac(c)
  auto res = s.get_result();
  std::vector<T> items(res.begin(), res.end());
  j.arr("q_result_seed777", items);
  // stored sample (no public getter for the partial item): private state, read only
  std::vector<T> full(s.sample_.data_.begin(), s.sample_.data_.end());
  j.arr("full_items", full).put("has_partial_item", s.sample_.has_partial_item());
  if (s.sample_.has_partial_item()) j.put("partial_item", T(*s.sample_.partial_item_));
  j.put("rho", s.rho_).put("max_weight", s.wt_max_);
  return j.done();
}
template<typename T> void register_ebpps(const std::string& name, int nvariants) {
  Family f; f.name = name; f.group = 3; f.nvariants = nvariants;
  f.build = [](int v, Rng& r, bool small) { auto s = gen_ebpps<T>(v, r, small); return Built{write_ebpps(s, false), readout_ebpps(s)}; };
  f.read = [](const std::string& img, bool stream, int) { return readout_ebpps(read_ebpps<T>(img, stream)); };
  f.decode_case = [name](int v, Rng& r, bool small) {
    auto s = gen_ebpps<T>(v, r, small);
    const std::string ctx = "variant=" + std::to_string(v) + " k=" + std::to_string(s.get_k()) + " n=" + std::to_string(s.get_n());
    const std::string b = write_ebpps(s, false), st = write_ebpps(s, true);
    check_header_variants("ebpps", b, [&](unsigned h) { return s.serialize(h); }, ctx);
    for (int p = 0; p < (b == st ? 1 : 2); ++p) {
      const std::string& img = p ? st : b;
      Ebpps<T> d = decode_ebpps<T>(img.data(), img.size());
      const std::string c2 = ctx + (p ? " path=stream" : " path=bytes");
      VF_CHECK(d.k == s.get_k(), "ebpps|image-vs-api|k", c2);
      VF_CHECK(d.empty == s.is_empty(), "ebpps|image-vs-api|empty-flag", c2);
      if (!d.empty) {
        VF_CHECK(d.n == s.get_n(), "ebpps|image-vs-api|n", c2);
        VF_CHECK(d.cum_wt == s.get_cumulative_weight(), "ebpps|image-vs-api|cumulative-weight", c2);
        VF_CHECK(d.c == s.get_c(), "ebpps|image-vs-api|c", c2);
        auto res = s.get_result();
        std::vector<T> got(res.begin(), res.end());
        VF_CHECK(got.size() == d.items.size() || (d.has_partial && got.size() == d.items.size() + 1), "ebpps|image-vs-api|result-size", c2);
        if (got.size() >= d.items.size()) {
          VF_CHECK(std::equal(d.items.begin(), d.items.end(), got.begin()), "ebpps|image-vs-api|full-items-or-order", c2);
          if (got.size() == d.items.size() + 1) { VF_CHECK(got.back() == d.partial, "ebpps|image-vs-api|partial-item", c2); count("ebpps_partial_item_in_result"); }
        }
        VF_CHECK(d.rho == s.rho_ && d.wt_max == s.wt_max_, "ebpps|image-vs-state|rho-or-max-weight", c2);
      }
      count(d.empty ? "ebpps_empty" : d.has_partial ? "ebpps_partial" : "ebpps_integral_c");
      sig(mix64(mix64(d.n, d.k), mix64(uint64_t(d.c * 1000), d.flags)));
    }
    count("decoded_" + name);
  };
  families().push_back(f);
}
#endif // C10_C1

#ifdef C10_C2
// ------------------------------------------------------------------- t-digest
template<typename T> struct TdState { tdigest<T> sk; bool with_buffer; };
template<typename T> TdState<T> gen_tdigest(int variant, Rng& r, bool small) {
  const int state = variant % 6; const bool with_buffer = (variant / 6) % 2;
  static const uint16_t ks[] = {10, 50, 100, 200};
  const uint16_t k = small ? ks[(variant / 12) % 2] : ks[r.below(4)];
  tdigest<T> s(k);
  auto feed = [&](tdigest<T>& sk, uint64_t n) { for (uint64_t i = 0; i < n; ++i) sk.update(static_cast<T>(r.chance(0.5) ? double(r.below(100000)) * 0.01 : std::ldexp(double(r.below(1000)) - 500.0, int(r.range(-10, 10))))); };
  switch (state) {
    case 0: break;
    case 1: feed(s, 1); break;
    case 2: feed(s, 2 + r.below(20)); break;                                  // everything still buffered
    case 3: feed(s, 500 + r.below(small ? 2000 : 100000)); break;
    case 4: feed(s, 500 + r.below(small ? 2000 : 100000)); s.compress(); break;
    default: { tdigest<T> o(k); feed(o, 1 + r.below(small ? 2000 : 50000)); feed(s, 1 + r.below(small ? 2000 : 50000)); s.merge(o); break; }
  }
  return TdState<T>{std::move(s), with_buffer};
}
// bytes-path serialize(header=0, with_buffer): header size 0 only (tdigest header defect, DESIGN.md §7 #4)
template<typename T> std::string write_tdigest(const tdigest<T>& s, bool with_buffer, bool stream) {
  if (stream) { std::ostringstream os; s.serialize(os, with_buffer); return os.str(); }
  return to_str(s.serialize(0, with_buffer));
}
template<typename T> tdigest<T> read_tdigest(const std::string& img, bool stream) {
  if (stream) { std::istringstream is(img); return tdigest<T>::deserialize(is); }
  return tdigest<T>::deserialize(img.data(), img.size());
}
template<typename T> std::string readout_tdigest(const tdigest<T>& s0) {
  tdigest<T> s(s0);   // queries compress
  J j; j.put("family", std::string("tdigest"));
  j.put("is_empty", s.is_empty()).put("k", s.get_k()).put("total_weight", s.get_total_weight());
  if (s.is_empty()) return j.done();
  j.put("min_value", s.get_min_value()).put("max_value", s.get_max_value());
  std::vector<double> ranks; std::vector<T> qs;
  const double lo = s.get_min_value(), hi = s.get_max_value();
  for (int i = 0; i <= 10; ++i) ranks.push_back(s.get_rank(static_cast<T>(lo + (hi - lo) * i / 10.0)));
  for (double q : {0.0, 0.01, 0.1, 0.25, 0.5, 0.75, 0.9, 0.99, 1.0}) qs.push_back(s.get_quantile(q));
  j.arr("q_ranks", ranks).arr("q_quantiles", qs);
  // stored state (no public getter; private members read only): centroids and not yet merged values (= centroids of weight 1;
  // a single-value image restores its value as a centroid where the writer may still have had it buffered), sorted by mean
  std::vector<std::pair<T, uint64_t>> cw;
  for (const auto& c : s0.centroids_) cw.push_back({c.get_mean(), c.get_weight()});
  for (T v : s0.buffer_) cw.push_back({v, 1});
  std::stable_sort(cw.begin(), cw.end());
  std::vector<T> means; std::vector<uint64_t> ws;
  for (auto& p : cw) { means.push_back(p.first); ws.push_back(p.second); }
  j.arr("content_means", means).arr("content_weights", ws);
  return j.done();
}
template<typename T> void register_tdigest(const std::string& name, int nvariants) {
  Family f; f.name = name; f.group = 3; f.nvariants = nvariants;
  f.build = [](int v, Rng& r, bool small) { auto st = gen_tdigest<T>(v, r, small); std::string img = write_tdigest(st.sk, st.with_buffer, false); return Built{img, readout_tdigest(st.sk)}; };
  f.read = [](const std::string& img, bool stream, int) { return readout_tdigest(read_tdigest<T>(img, stream)); };
  f.decode_case = [name](int v, Rng& r, bool small) {
    auto st = gen_tdigest<T>(v, r, small);
    tdigest<T>& s = st.sk;
    const std::string ctx = "variant=" + std::to_string(v) + " k=" + std::to_string(s.get_k()) + " n=" + std::to_string(s.get_total_weight()) + (st.with_buffer ? " with_buffer" : "");
    const std::string b = write_tdigest(s, st.with_buffer, false), sm = write_tdigest(s, st.with_buffer, true);
    check_header_variants("tdigest", b, [&](unsigned h) { return s.serialize(h, st.with_buffer); }, ctx);
    for (int p = 0; p < (b == sm ? 1 : 2); ++p) {
      const std::string& img = p ? sm : b;
      Tdigest<T> d = decode_tdigest<T>(img.data(), img.size());
      const std::string c2 = ctx + (p ? " path=stream" : " path=bytes");
      VF_CHECK(d.k == s.get_k(), "tdigest|image-vs-api|k", c2);
      VF_CHECK(d.empty == s.is_empty(), "tdigest|image-vs-api|empty-flag", c2);
      if (!d.empty) {
        uint64_t tw = d.buffer.size(); for (uint64_t w : d.weights) tw += w;
        VF_CHECK(tw == s.get_total_weight(), "tdigest|image-vs-api|total-weight", c2 + " stored=" + std::to_string(tw));
        // the short single-value form implies weight 1 and nothing buffered; a single value still sitting in the buffer
        // (with_buffer) is written in the long form with 0 centroids + 1 buffered value (fix 870935d keeps the merge direction)
        if (d.single) VF_CHECK(tw == 1 && d.buffer.empty(), "tdigest|image|single-value-flag-vs-weight", c2);
        else if (tw == 1) { VF_CHECK(d.means.size() + d.buffer.size() == 1, "tdigest|image|weight-one-long-form-not-one-value", c2); count("tdigest_single_in_long_form"); }
        VF_CHECK(d.min_v == s.get_min_value() && d.max_v == s.get_max_value(), "tdigest|image-vs-api|min-max", c2);
        if (!st.with_buffer) VF_CHECK(d.buffer.empty(), "tdigest|image|buffered-values-though-not-requested", c2);
        // private state (no public getter): centroids in order, buffered values in order
        std::vector<T> means; std::vector<uint64_t> ws;
        for (const auto& c : s.centroids_) { means.push_back(c.get_mean()); ws.push_back(c.get_weight()); }
        if (!d.single) {
          VF_CHECK(same_bits(means, d.means) && ws == d.weights, "tdigest|image-vs-state|centroids-or-order", c2 + " stored=" + std::to_string(d.means.size()) + " state=" + std::to_string(means.size()));
          std::vector<T> buf(s.buffer_.begin(), s.buffer_.end());
          VF_CHECK(same_bits(buf, d.buffer), "tdigest|image-vs-state|buffer", c2);
          VF_CHECK(d.reverse_merge == s.reverse_merge_, "tdigest|image-vs-state|reverse-merge-flag-bit2", c2);
        }
        if (!d.buffer.empty()) count("tdigest_with_buffer");
      }
      count(d.empty ? "tdigest_empty" : d.single ? "tdigest_single" : "tdigest_multi");
      sig(mix64(mix64(d.k, d.means.size()), mix64(d.buffer.size(), d.flags)));
    }
    count("decoded_" + name);
  };
  families().push_back(f);
}

// ------------------------------------------------------------------- Bloom filter
// canonical bytes hashed by update(): unsigned ints zero-extended / signed ints sign-extended to 64 bits, float -> double,
// -0.0 -> 0.0, NaN -> 0x7ff8000000000000, strings and byte arrays as is (empty ones ignored)
inline bool bloom_canon(const Val& v, std::string& out) {
  auto le8 = [](uint64_t x) { std::string b(8, '\0'); for (int i = 0; i < 8; ++i) b[i] = char(x >> (8 * i)); return b; };
  switch (v.kind) {
    case V_U64: case V_I64: out = le8(v.u); return true;
    case V_U32: out = le8(uint64_t(uint32_t(v.u))); return true;
    case V_I32: out = le8(uint64_t(int64_t(int32_t(uint32_t(v.u))))); return true;
    case V_U16: out = le8(uint64_t(uint16_t(v.u))); return true;
    case V_I16: out = le8(uint64_t(int64_t(int16_t(uint16_t(v.u))))); return true;
    case V_U8: out = le8(uint64_t(uint8_t(v.u))); return true;
    case V_I8: out = le8(uint64_t(int64_t(int8_t(uint8_t(v.u))))); return true;
    case V_F64: out = le8(canon_double_bits(v.d)); return true;
    case V_F32: out = le8(canon_double_bits(static_cast<double>(v.f))); return true;
    default: out = v.s; return !v.s.empty();
  }
}
inline void bloom_ref_indexes(const Val& v, uint64_t seed, uint16_t num_hashes, uint64_t num_bits, std::vector<uint64_t>& out) {
  std::string b;
  if (!bloom_canon(v, b)) return;
  const uint64_t h0 = ref_xxh64(b.data(), b.size(), seed);
  const uint64_t h1 = ref_xxh64(b.data(), b.size(), h0);
  for (uint64_t i = 1; i <= num_hashes; ++i) out.push_back(((h0 + i * h1) >> 1) % num_bits);
}
struct BloomState { bloom_filter bf; std::vector<Val> inputs; bool exact_model; };
inline BloomState gen_bloom(int variant, Rng& r, bool small) {
  const int state = variant % 6;
  const uint64_t seed = (variant % 2) ? 0x9e3779b97f4a7c15ULL * uint64_t(variant + 1) : 9001;
  const uint64_t bits = small ? 64 * (1 + r.below(40)) - r.below(64) : 64 * (1 + r.below(3000)) - r.below(64);
  const uint16_t nh = static_cast<uint16_t>(1 + r.below(small ? 5 : 12));
  BloomState st{state == 4 ? bloom_filter::builder::create_by_accuracy(50 + r.below(small ? 300 : 20000), 0.01 + r.unit() * 0.2, seed)
                           : bloom_filter::builder::create_by_size(bits, nh, seed), {}, true};
  auto feed = [&](bloom_filter& f, uint64_t n, bool rec) { for (uint64_t i = 0; i < n; ++i) { Val v = gen_val(r, 1ULL << 40); apply_update(f, v); if (rec) st.inputs.push_back(v); } };
  switch (state) {
    case 0: break;
    case 1: feed(st.bf, 1 + r.below(5), true); break;
    case 2: feed(st.bf, 20 + r.below(small ? 200 : 5000), true); break;
    case 3: feed(st.bf, 20 + r.below(200), true); (void)st.bf.get_bits_used(); break;        // bit count stored (not "dirty")
    case 4: feed(st.bf, 10 + r.below(100), true); break;
    default: {                                                                                   // union then invert: no input model
      bloom_filter o = bloom_filter::builder::create_by_size(st.bf.get_capacity(), st.bf.get_num_hashes(), seed);
      feed(o, 30, true); feed(st.bf, 30, true); st.bf.union_with(o);
      if (r.coin()) { st.bf.invert(); st.exact_model = false; }
      break;
    }
  }
  return st;
}
inline std::string write_bloom(const bloom_filter& s, bool stream) { if (stream) { std::ostringstream os; s.serialize(os); return os.str(); } return to_str(s.serialize()); }
inline bloom_filter read_bloom(const std::string& img, bool stream) {
  if (stream) { std::istringstream is(img); return bloom_filter::deserialize(is); }
  return bloom_filter::deserialize(img.data(), img.size());
}
inline std::string readout_bloom(const bloom_filter& s0) {
  bloom_filter s(s0);
  J j; j.put("family", std::string("bloom"));
  j.put("is_empty", s.is_empty()).put("capacity", s.get_capacity()).put("num_hashes", s.get_num_hashes()).put("seed", s.get_seed())
   .put("bits_used", s.get_bits_used());
  std::string q;
  Rng pr(0xB100);
  for (int i = 0; i < 200; ++i) q += s.query(uint64_t(pr.next() % 5000)) ? '1' : '0';
  for (int i = 0; i < 60; ++i) q += s.query(std::string("item") + std::to_string(i)) ? '1' : '0';
  j.put("queries", q);
  return j.done();
}
// ------------------------------------------------------------------- Bloom filters living in caller memory
// initialize_by_size / initialize_by_accuracy / writable_wrap: the caller's memory IS the documented image (always the 4-long
// non-empty form) and other readers may open it at any time.  After every operation the memory is decoded by the independent
// decoder: stored bit count = all-ones ("not counted") or exactly the popcount, bit array = reference model, and a fresh read-only
// wrap and a deserialize of the same bytes must read out like the live filter.
inline void bloom_memory_case(Rng& r) {
  const uint64_t seed = r.coin() ? 9001 : r.next();
  const int kind = static_cast<int>(r.below(3));
  uint64_t bits = 64 * (1 + r.below(60)) - r.below(64);
  uint16_t nh = static_cast<uint16_t>(1 + r.below(7));
  const uint64_t acc_n = 20 + r.below(300); const double acc_p = 0.01 + r.unit() * 0.2;
  if (kind == 1) { bits = bloom_filter::builder::suggest_num_filter_bits(acc_n, acc_p); nh = bloom_filter::builder::suggest_num_hashes(acc_p); }   // the same two public functions initialize_by_accuracy is documented to use
  const size_t size = bloom_filter::get_serialized_size_bytes(bits);
  std::vector<uint64_t> mem(size / 8 + 2, 0x5a5a5a5a5a5a5a5aULL);   // garbage: initialize must overwrite what it uses
  uint8_t* M = reinterpret_cast<uint8_t*>(mem.data());
  const uint64_t m = ((bits + 63) / 64) * 64;
  std::vector<uint8_t> model(m / 8, 0);
  std::vector<Val> inputs;
  auto model_add = [&](const Val& v, std::vector<uint8_t>& mb) { std::vector<uint64_t> ix; bloom_ref_indexes(v, seed, nh, m, ix); for (uint64_t j : ix) mb[j >> 3] |= uint8_t(1u << (j & 7)); };
  auto some_val = [&]() { Val v = gen_val(r, 1ULL << 40, r.chance(0.7) ? int(V_U64) : -1); return v; };
  std::unique_ptr<bloom_filter> live;
  if (kind == 0) live.reset(new bloom_filter(bloom_filter::builder::initialize_by_size(M, size, bits, nh, seed)));
  else if (kind == 1) live.reset(new bloom_filter(bloom_filter::builder::initialize_by_accuracy(M, size, acc_n, acc_p, seed)));
  else {
    bloom_filter h = bloom_filter::builder::create_by_size(bits, nh, seed);
    for (int i = 0, n = 1 + int(r.below(10)); i < n; ++i) { Val v = some_val(); apply_update(h, v); std::string cb; if (bloom_canon(v, cb)) { model_add(v, model); inputs.push_back(v); } }
    if (h.is_empty()) { Val v; v.kind = V_U64; v.u = 7; apply_update(h, v); model_add(v, model); inputs.push_back(v); }
    const auto img = h.serialize();
    memcpy(M, img.data(), img.size());
    live.reset(new bloom_filter(bloom_filter::writable_wrap(M, img.size())));
  }
  const char* kinds[] = {"initialize_by_size", "initialize_by_accuracy", "writable_wrap"};
  const std::string base = std::string("memory filter ") + kinds[kind] + " bits=" + std::to_string(m) + " hashes=" + std::to_string(nh);
  VF_CHECK(live->get_capacity() == m && live->get_num_hashes() == nh && live->is_wrapped(), "bloom|memory|configuration", base);
  auto observe = [&](const std::string& after) {
    const std::string ctx = base + " after " + after;
    Bloom d = decode_bloom(M, size);
    VF_CHECK(!d.empty && d.pre_longs == 4, "bloom|memory-image|not-the-four-long-form", ctx);
    VF_CHECK(d.num_hashes == nh && d.seed == seed && uint64_t(d.num_longs) * 64 == m, "bloom|memory-image|configuration", ctx);
    VF_CHECK(d.bits == model, "bloom|memory-image|bit-array-vs-reference-model", ctx);
    const uint64_t pop = d.popcount();
    VF_CHECK(d.num_bits_set == UINT64_MAX || d.num_bits_set == pop, "bloom|memory-image|stored-bit-count-neither-marker-nor-popcount", ctx + " stored=" + std::to_string(d.num_bits_set) + " popcount=" + std::to_string(pop));
    count(d.num_bits_set == UINT64_MAX ? "bloom_memory_count_marker" : "bloom_memory_count_exact");
    // second readers of the same bytes
    for (int rd = 0; rd < 2; ++rd) {
      const std::string R = rd ? "deserialize" : "wrap";
      try {
        bloom_filter other = rd ? bloom_filter::deserialize(M, size) : bloom_filter(bloom_filter::wrap(M, size));
        VF_CHECK(other.is_empty() == (pop == 0), "bloom|memory-image|" + R + "|is-empty-vs-bits", ctx + " popcount=" + std::to_string(pop));
        VF_CHECK(other.is_empty() == live->is_empty(), "bloom|memory-image|" + R + "|is-empty-vs-live-filter", ctx);
        bool ok = true;
        for (const Val& v : inputs) { std::string cb; bloom_canon(v, cb); ok = ok && other.query(cb.data(), cb.size()) == live->query(cb.data(), cb.size()); }
        Rng pr(5);
        for (int i = 0; i < 60; ++i) { const uint64_t x = pr.next(); ok = ok && other.query(x) == live->query(x); }
        VF_CHECK(ok, "bloom|memory-image|" + R + "|queries-differ-from-live-filter", ctx);
        if (rd == 1) VF_CHECK(other.get_bits_used() == pop, "bloom|memory-image|deserialize|bits-used", ctx);
      } catch (const std::exception& e) { checked(); fail("bloom|memory-image|" + R + "|threw", ctx + ": " + e.what()); }
    }
  };
  observe("creation");
  const int nops = 1 + static_cast<int>(r.below(10));
  for (int op = 0; op < nops; ++op) {
    const uint64_t c = r.below(100);
    std::string what;
    if (c < 45) { Val v = some_val(); apply_update(*live, v); std::string cb; if (bloom_canon(v, cb)) { model_add(v, model); inputs.push_back(v); } what = "update"; count("bloom_memory_update"); }
    else if (c < 65) { Val v; v.kind = V_U64; v.u = r.next(); std::vector<uint8_t> before = model; model_add(v, model); const bool was = live->query_and_update(v.u);
      VF_CHECK(was == (before == model), "bloom|memory|query-and-update-result", base); inputs.push_back(v); what = "query_and_update"; count("bloom_memory_query_and_update"); }
    else if (c < 75 || c >= 96) { bloom_filter o = bloom_filter::builder::create_by_size(bits, nh, seed); std::vector<uint8_t> ob(m / 8, 0);
      for (int i = 0, n = int(r.below(8)); i < n; ++i) { Val v; v.kind = V_U64; v.u = r.next(); o.update(v.u); model_add(v, ob); if (c < 75) inputs.push_back(v); }
      if (c < 75) { live->union_with(o); for (size_t i = 0; i < model.size(); ++i) model[i] |= ob[i]; what = "union_with"; count("bloom_memory_union"); }
      else { live->intersect(o); for (size_t i = 0; i < model.size(); ++i) model[i] &= ob[i]; what = "intersect"; count("bloom_memory_intersect"); } }
    else if (c < 85) { live->invert(); for (auto& b : model) b = uint8_t(~b); what = "invert"; count("bloom_memory_invert"); }
    else if (c < 90) { live->reset(); std::fill(model.begin(), model.end(), 0); what = "reset"; count("bloom_memory_reset"); }
    else { const uint64_t used = live->get_bits_used(); uint64_t pop = 0; for (uint8_t b : model) pop += __builtin_popcount(b);
      VF_CHECK(used == pop, "bloom|memory|bits-used-vs-reference-model", base); what = "get_bits_used"; count("bloom_memory_get_bits_used"); }
    observe(what);
  }
  count(std::string("bloom_memory_") + kinds[kind]);
  uint64_t pop = 0; for (uint8_t b : model) pop += __builtin_popcount(b);
  sig(mix64(mix64(m, nh), mix64(pop, kind + 77)));
}

inline void register_bloom() {
  Family f; f.name = "bloom"; f.group = 3; f.nvariants = 18;
  f.build = [](int v, Rng& r, bool small) { BloomState st = gen_bloom(v, r, small); return Built{write_bloom(st.bf, false), readout_bloom(st.bf)}; };
  f.read = [](const std::string& img, bool stream, int) { return readout_bloom(read_bloom(img, stream)); };
  f.decode_case = [](int v, Rng& r, bool small) {
    if (r.chance(0.35)) { bloom_memory_case(r); count("decoded_bloom"); return; }
    BloomState st = gen_bloom(v, r, small);
    bloom_filter& s = st.bf;
    const std::string ctx = "variant=" + std::to_string(v) + " bits=" + std::to_string(s.get_capacity()) + " hashes=" + std::to_string(s.get_num_hashes()) + " inputs=" + std::to_string(st.inputs.size());
    const std::string b = write_bloom(s, false), sm = write_bloom(s, true);
    check_header_variants("bloom", b, [&](unsigned h) { return s.serialize(h); }, ctx);
    for (int p = 0; p < (b == sm ? 1 : 2); ++p) {
      const std::string& img = p ? sm : b;
      Bloom d = decode_bloom(img.data(), img.size());
      const std::string c2 = ctx + (p ? " path=stream" : " path=bytes");
      VF_CHECK(uint64_t(d.num_longs) * 64 == s.get_capacity(), "bloom|image-vs-api|capacity", c2);
      VF_CHECK(d.num_hashes == s.get_num_hashes(), "bloom|image-vs-api|num-hashes", c2);
      VF_CHECK(d.seed == s.get_seed(), "bloom|image-vs-api|seed", c2);
      VF_CHECK(d.empty == s.is_empty(), "bloom|image-vs-api|empty-flag", c2);
      if (!d.empty) {
        if (d.num_bits_set != UINT64_MAX) { VF_CHECK(d.num_bits_set == d.popcount(), "bloom|image|num-bits-set-vs-popcount", c2); count("bloom_count_stored"); }
        else count("bloom_count_dirty");
        VF_CHECK(d.popcount() == bloom_filter(s).get_bits_used(), "bloom|image-vs-api|popcount-vs-bits-used", c2);
        if (st.exact_model) {
          // bit positions from the reference XXH64 double hashing of the canonical inputs
          std::vector<uint64_t> idx;
          for (const Val& x : st.inputs) bloom_ref_indexes(x, d.seed, d.num_hashes, s.get_capacity(), idx);
          std::vector<uint8_t> want(d.bits.size(), 0);
          for (uint64_t i : idx) want[i >> 3] |= uint8_t(1u << (i & 7));
          VF_CHECK(want == d.bits, "bloom|image-vs-reference|bit-array-vs-xxh64-double-hashing", c2);
          count("bloom_reference_bits_checked");
        }
      }
      count(d.empty ? "bloom_empty" : "bloom_nonempty");
      sig(mix64(mix64(d.num_longs, d.num_hashes), mix64(d.popcount(), d.seed)));
    }
    count("decoded_bloom");
  };
  families().push_back(f);
}

// ------------------------------------------------------------------- density
template<typename T> density_sketch<T> gen_density(int variant, Rng& r, bool small) {
  const int state = variant % 5;
  static const uint16_t ks[] = {4, 10, 30}; static const uint32_t dims[] = {1, 3, 8};
  const uint16_t k = small ? ks[(variant / 5) % 2] : ks[r.below(3)];
  const uint32_t dim = small ? dims[(variant / 10) % 2] : dims[r.below(3)];
  density_sketch<T> s(k, dim);
  auto feed = [&](density_sketch<T>& sk, uint64_t n) {
    for (uint64_t i = 0; i < n; ++i) { std::vector<T> pt(dim); for (auto& x : pt) x = static_cast<T>(double(r.below(2001)) * 0.001 - 1.0); sk.update(pt); }
  };
  switch (state) {
    case 0: break;
    case 1: feed(s, 1); break;
    case 2: feed(s, 2 + r.below(k)); break;
    case 3: feed(s, 4 * k + r.below(small ? 300 : 5000)); break;
    default: { density_sketch<T> o(k, dim); feed(o, 1 + r.below(small ? 200 : 3000)); feed(s, 1 + r.below(small ? 200 : 3000)); s.merge(o); break; }
  }
  return s;
}
template<typename T> std::string write_density(const density_sketch<T>& s, bool stream) { if (stream) { std::ostringstream os; s.serialize(os); return os.str(); } return to_str(s.serialize()); }
template<typename T> density_sketch<T> read_density(const std::string& img, bool stream) {
  if (stream) { std::istringstream is(img); return density_sketch<T>::deserialize(is); }
  return density_sketch<T>::deserialize(img.data(), img.size());
}
template<typename T> void density_points(const density_sketch<T>& s, std::vector<std::vector<T>>& pts, std::vector<uint64_t>& w) {
  if (s.is_empty()) return;
  for (auto it = s.begin(); it != s.end(); ++it) { auto p = *it; pts.push_back(std::vector<T>(p.first.begin(), p.first.end())); w.push_back(p.second); }
}
template<typename T> std::string readout_density(const density_sketch<T>& s) {
  J j; j.put("family", std::string("density"));
  j.put("is_empty", s.is_empty()).put("k", s.get_k()).put("dim", s.get_dim()).put("n", s.get_n()).put("num_retained", s.get_num_retained())
   .put("is_estimation_mode", s.is_estimation_mode());
  std::vector<std::vector<T>> pts; std::vector<uint64_t> w;
  density_points(s, pts, w);
  std::vector<T> flat; for (auto& p : pts) for (T x : p) flat.push_back(x);
  j.arr("points", flat).arr("weights", w);
  if (!s.is_empty()) {
    std::vector<T> est;
    for (int i = 0; i < 4; ++i) { std::vector<T> q(s.get_dim(), static_cast<T>(-0.9 + 0.6 * i)); est.push_back(s.get_estimate(q)); }
    j.arr("q_estimates", est);
  }
  return j.done();
}
template<typename T> void register_density(const std::string& name, int nvariants) {
  Family f; f.name = name; f.group = 3; f.nvariants = nvariants;
  f.build = [](int v, Rng& r, bool small) { auto s = gen_density<T>(v, r, small); return Built{write_density(s, false), readout_density(s)}; };
  f.read = [](const std::string& img, bool stream, int) { return readout_density(read_density<T>(img, stream)); };
  f.decode_case = [name](int v, Rng& r, bool small) {
    auto s = gen_density<T>(v, r, small);
    const std::string ctx = "variant=" + std::to_string(v) + " k=" + std::to_string(s.get_k()) + " dim=" + std::to_string(s.get_dim()) + " n=" + std::to_string(s.get_n());
    const std::string b = write_density(s, false), sm = write_density(s, true);
    check_header_variants("density", b, [&](unsigned h) { return s.serialize(h); }, ctx);
    for (int p = 0; p < (b == sm ? 1 : 2); ++p) {
      const std::string& img = p ? sm : b;
      Density<T> d = decode_density<T>(img.data(), img.size());
      const std::string c2 = ctx + (p ? " path=stream" : " path=bytes");
      VF_CHECK(d.k == s.get_k() && d.dim == s.get_dim(), "density|image-vs-api|k-or-dim", c2);
      VF_CHECK(d.empty == s.is_empty(), "density|image-vs-api|empty-flag", c2);
      if (!d.empty) {
        VF_CHECK(d.n == s.get_n(), "density|image-vs-api|n", c2);
        VF_CHECK(d.num_retained == s.get_num_retained(), "density|image-vs-api|num-retained", c2);
        std::vector<std::vector<T>> pts; std::vector<uint64_t> w;
        density_points(s, pts, w);
        bool same = pts.size() == d.points.size() && w == d.weights;
        for (size_t i = 0; same && i < pts.size(); ++i) same = same_bits(pts[i], d.points[i]);
        VF_CHECK(same, "density|image-vs-api|points-weights-or-order", c2 + " stored=" + std::to_string(d.points.size()) + " api=" + std::to_string(pts.size()));
      }
      count(d.empty ? "density_empty" : s.is_estimation_mode() ? "density_estimation" : "density_exact");
      sig(mix64(mix64(d.n, d.k), mix64(d.dim, d.num_retained)));
    }
    count("decoded_" + name);
  };
  families().push_back(f);
}
#endif // C10_C2

inline void register_group_c() {
#ifdef C10_C1
  register_varopt<int64_t>("varopt_int64", 24);
  register_varopt<std::string>("varopt_string", 6);
  register_varopt_union<int64_t>("varopt_union_int64", 10);
  // (no std::string union: var_opt_union<std::string>::get_result() leaks an item on the marked-item migration path, which is
  //  C19's finding; items without heap storage keep this monitor about layout)
  register_varopt_union<double>("varopt_union_double", 5);
  register_ebpps<int64_t>("ebpps_int64", 10);
  register_ebpps<std::string>("ebpps_string", 5);
#endif
#ifdef C10_C2
  register_tdigest<double>("tdigest_double", 24);
  register_tdigest<float>("tdigest_float", 12);
  register_bloom();
  register_density<float>("density_float", 20);
  register_density<double>("density_double", 5);
  // t-digest reference-implementation images (big endian); the float image is also readable as tdigest<double> (tdigest_test.cpp)
  shipped().push_back(Shipped{"tdigest/test/tdigest_ref_k100_n10000_double.sk", "tdigest_ref_k100_n10000_double.sk", "tdigest",
    [](const std::string& img, bool stream) { return readout_tdigest(read_tdigest<double>(img, stream)); }});
  shipped().push_back(Shipped{"tdigest/test/tdigest_ref_k100_n10000_float.sk", "tdigest_ref_k100_n10000_float.sk", "tdigest",
    [](const std::string& img, bool stream) { return readout_tdigest(read_tdigest<float>(img, stream)); }});
  shipped().push_back(Shipped{"tdigest/test/tdigest_ref_k100_n10000_float.sk", "tdigest_ref_k100_n10000_float.sk.as_double", "tdigest",
    [](const std::string& img, bool stream) { return readout_tdigest(read_tdigest<double>(img, stream)); }});
#endif
}

} } // namespace vf::c10
#endif
