// C07 — shared oracle + case driver for the three quantile-sketch families (KLL, REQ, classic).
//
// Reference model: the exact multiset of *accepted* items of every live sketch (NaN is documented as
// ignored for floating point items).  After every update batch and every merge the complete public
// read-out of the sketch is compared with the model:
//   n / is_empty, exact extremes, iteration (count, weights, power of two, Σw == n, items were offered),
//   stated space bound (family hook), sorted view (size, order, cumulative weights, total == n),
//   rank / quantile monotonicity, rank_incl >= rank_excl, CDF/PMF consistency, invalid queries throw,
//   and, while !is_estimation_mode(), every rank and quantile equals the true value of the multiset.
// Queries and get_sorted_view() have side effects (they sort level 0 / the base buffer and cache the view), so
// part of the observations are "light": only n, extremes, iteration and the space bound are read, which lets
// never-queried sketches reach their next update or merge.
//
// A family unit (c07_kll.cpp, c07_req.cpp, c07_quantiles.cpp) supplies a policy struct `F`:
//   static const char* name();
//   template<class K> using SK = <sketch of Tr<K>::T with comparator type Tr<K>::Cmp>;   (K = "kind", see Tr)
//   struct Cfg;  static Cfg cfg(Rng&);  static std::string cfg_str(const Cfg&);
//   static uint32_t pick_k(Rng&, bool thorough);
//   template<class K> static SK<K> make(uint32_t k, const Cfg&, const Tr<K>::Cmp& instance);
//   template<class K> static SK<K> roundtrip(const SK<K>&, const Tr<K>::Cmp& instance, bool stream);   // serialize + deserialize
//   static uint64_t exact_cap(uint32_t k);         // largest n that plain updates keep exact
//   static const bool self_merge_ok;               // x.merge(x) is supported (merges a snapshot)
//   static bool convert_gap(uint32_t k, uint64_t n);   // state (k, n) has an empty level below the top one
//   static uint32_t large_k(bool max);             // the largest (or a second large) configurable k
//   template<class K> static int level0_unsorted(const SK<K>&);   // 1 / 0 / -1 (not published) from to_string()
//   template<class T> static void bound(const SK<T>&, uint32_t retained, uint64_t n, const std::string& ctx);
//   template<class T> static void counters(const SK<T>&, const Observed&, bool after_merge);
#ifndef VF_C07_QUANTILES_ORACLE_HPP
#define VF_C07_QUANTILES_ORACLE_HPP

#include "core.hpp"
#include <common_defs.hpp>
#include <limits>
#include <memory>
#include <ostream>
#include <type_traits>

namespace vf { namespace c07 {

// ------------------------------------------------------------------------------- item types
// std::string ordered by length, then *reverse* lexicographic (a total order nothing like operator<)
struct StrCmp {
  bool operator()(const std::string& a, const std::string& b) const {
    if (a.size() != b.size()) return a.size() < b.size();
    return a > b;
  }
};
// instrumented item: ordered by key only, so distinct items (different tag) can be equivalent
struct Item { int32_t key; uint32_t tag; };
struct ItemCmp { bool operator()(const Item& a, const Item& b) const { return a.key < b.key; } };
inline std::ostream& operator<<(std::ostream& os, const Item& i) { return os << i.key << "#" << i.tag; }

// A "kind" K names an (item type, comparator type) pair: Tr<K>::T and Tr<K>::Cmp.  For the plain kinds K is the item
// type itself; DirDouble / DirString use a *stateful* comparator whose instances differ from a default-constructed one.
template<typename K> struct Tr;

// direction-carrying comparator: a default-constructed instance sorts ascending, an instance with desc=true descending
template<typename V> struct DirCmp {
  bool desc;
  DirCmp(): desc(false) {}
  explicit DirCmp(bool d): desc(d) {}
  bool operator()(const V& a, const V& b) const { return desc ? b < a : a < b; }
};
struct DirDouble {};
struct DirString {};

template<typename C> struct StatelessCmp {
  static C make_cmp(Rng&) { return C(); }
  static bool cmp_is_default(const C&) { return true; }
  static std::string cmp_str(const C&) { return ""; }
  static const bool has_serde = false;
  static const bool stateful = false;
};

template<typename FP> struct TrFloat: StatelessCmp<std::less<FP>> {
  typedef FP T;
  typedef std::less<FP> Cmp;
  static const bool has_nan = true;
  static FP make(int64_t key, uint32_t) { return static_cast<FP>(key) * static_cast<FP>(0.5) - static_cast<FP>(64); }
  static int n_special() { return 8; }
  static FP special(int i, uint32_t) {
    switch (i) {
      case 0: case 1: return std::numeric_limits<FP>::quiet_NaN();
      case 2: return std::numeric_limits<FP>::infinity();
      case 3: return -std::numeric_limits<FP>::infinity();
      case 4: return static_cast<FP>(-0.0);
      case 5: return static_cast<FP>(0.0);
      case 6: return std::numeric_limits<FP>::denorm_min();
      default: return -std::numeric_limits<FP>::max();
    }
  }
  static FP nan() { return std::numeric_limits<FP>::quiet_NaN(); }
  static bool accepted(FP x) { return !std::isnan(x); }
  static bool total_less(const Cmp&, FP a, FP b) { return a < b || (a == b && std::signbit(a) && !std::signbit(b)); }
  static std::string show(FP x) { return str(x); }
};
template<> struct Tr<float>: TrFloat<float> { static const char* name() { return "float"; } };
template<> struct Tr<double>: TrFloat<double> { static const char* name() { return "double"; } };

template<> struct Tr<int64_t>: StatelessCmp<std::less<int64_t>> {
  typedef int64_t T;
  typedef std::less<int64_t> Cmp;
  static const bool has_nan = false;
  static const char* name() { return "int64"; }
  static int64_t make(int64_t key, uint32_t) { return key * 3 - 1000; }
  static int n_special() { return 4; }
  static int64_t special(int i, uint32_t) {
    switch (i) {
      case 0: return std::numeric_limits<int64_t>::min();
      case 1: return std::numeric_limits<int64_t>::max();
      case 2: return 0;
      default: return -1;
    }
  }
  static int64_t nan() { return 0; }
  static bool accepted(int64_t) { return true; }
  static bool total_less(const Cmp&, int64_t a, int64_t b) { return a < b; }
  static std::string show(int64_t x) { return std::to_string(x); }
};

template<> struct Tr<std::string>: StatelessCmp<StrCmp> {
  typedef std::string T;
  typedef StrCmp Cmp;
  static const bool has_nan = false;
  static const char* name() { return "string"; }
  static std::string make(int64_t key, uint32_t) {
    std::string s = std::to_string(key);
    if (key % 5 == 0) s += std::string(17, '~');   // beyond the small-string buffer
    return s;
  }
  static int n_special() { return 4; }
  static std::string special(int i, uint32_t) {
    switch (i) {
      case 0: return std::string();
      case 1: return std::string(40, 'a');
      case 2: return std::string("\xff\xfe");
      default: return std::string("a\0b", 3);
    }
  }
  static std::string nan() { return std::string(); }
  static bool accepted(const std::string&) { return true; }
  static bool total_less(const Cmp&, const std::string& a, const std::string& b) { return StrCmp()(a, b); }
  static std::string show(const std::string& x) { return "'" + hexbytes(x.data(), x.size(), 24) + "'"; }
};

template<> struct Tr<Item>: StatelessCmp<ItemCmp> {
  typedef Item T;
  typedef ItemCmp Cmp;
  static const bool has_nan = false;
  static const char* name() { return "item"; }
  static Item make(int64_t key, uint32_t tag) { return Item{static_cast<int32_t>(key / 2), tag}; }
  static int n_special() { return 2; }
  static Item special(int i, uint32_t tag) {
    return Item{i == 0 ? std::numeric_limits<int32_t>::min() : std::numeric_limits<int32_t>::max(), tag};
  }
  static Item nan() { return Item{0, 0}; }
  static bool accepted(const Item&) { return true; }
  static bool total_less(const Cmp&, const Item& a, const Item& b) { return a.key < b.key || (a.key == b.key && a.tag < b.tag); }
  static std::string show(const Item& x) { return std::to_string(x.key) + "#" + std::to_string(x.tag); }
};

// stateful-comparator kinds: same values and hostile specials as the plain kinds, ordering taken from the instance
template<> struct Tr<DirDouble> {
  typedef double T;
  typedef DirCmp<double> Cmp;
  typedef Tr<double> B;
  static const bool has_nan = true;
  static const bool has_serde = true;
  static const bool stateful = true;
  static const char* name() { return "dir_double"; }
  static Cmp make_cmp(Rng& r) { return Cmp(r.chance(0.6)); }
  static bool cmp_is_default(const Cmp& c) { return !c.desc; }
  static std::string cmp_str(const Cmp& c) { return c.desc ? "cmp=desc" : "cmp=asc"; }
  static double make(int64_t key, uint32_t t) { return B::make(key, t); }
  static int n_special() { return B::n_special(); }
  static double special(int i, uint32_t t) { return B::special(i, t); }
  static double nan() { return B::nan(); }
  static bool accepted(double x) { return B::accepted(x); }
  static bool total_less(const Cmp& c, double a, double b) { return c.desc ? B::total_less(B::Cmp(), b, a) : B::total_less(B::Cmp(), a, b); }
  static std::string show(double x) { return B::show(x); }
};
template<> struct Tr<DirString> {
  typedef std::string T;
  typedef DirCmp<std::string> Cmp;
  typedef Tr<std::string> B;
  static const bool has_nan = false;
  static const bool has_serde = true;
  static const bool stateful = true;
  static const char* name() { return "dir_string"; }
  static Cmp make_cmp(Rng& r) { return Cmp(r.chance(0.6)); }
  static bool cmp_is_default(const Cmp& c) { return !c.desc; }
  static std::string cmp_str(const Cmp& c) { return c.desc ? "cmp=desc" : "cmp=asc"; }
  static std::string make(int64_t key, uint32_t t) { return B::make(key, t); }
  static int n_special() { return B::n_special(); }
  static std::string special(int i, uint32_t t) { return B::special(i, t); }
  static std::string nan() { return std::string(); }
  static bool accepted(const std::string&) { return true; }
  static bool total_less(const Cmp& c, const std::string& a, const std::string& b) { return c(a, b); }
  static std::string show(const std::string& x) { return B::show(x); }
};

template<typename K> struct TotalLess {
  typename Tr<K>::Cmp c;
  explicit TotalLess(const typename Tr<K>::Cmp& cc): c(cc) {}
  bool operator()(const typename Tr<K>::T& a, const typename Tr<K>::T& b) const { return Tr<K>::total_less(c, a, b); }
};

// ------------------------------------------------------------------------------- model
template<typename K> struct Model {
  typedef typename Tr<K>::T T;
  typedef typename Tr<K>::Cmp Cmp;
  Cmp cmp;                 // the comparator *instance* the sketch was built with
  Model(): cmp() {}
  explicit Model(const Cmp& c): cmp(c) {}
  std::vector<T> v;        // accepted items; v[0, nsorted) sorted by total_less (a refinement of Cmp); all of it after prep()
  size_t nsorted = 0;
  uint64_t mult = 1;       // every item of v stands for `mult` accepted copies (sketch merged with copies of itself)
  uint64_t total() const { return static_cast<uint64_t>(v.size()) * mult; }
  void add(const T& x) { if (Tr<K>::accepted(x)) v.push_back(x); }
  void prep() {
    if (nsorted == v.size()) return;
    const auto mid = v.begin() + static_cast<std::ptrdiff_t>(nsorted);
    std::sort(mid, v.end(), TotalLess<K>(cmp));
    if (nsorted) std::inplace_merge(v.begin(), mid, v.end(), TotalLess<K>(cmp));
    nsorted = v.size();
  }
  void absorb(Model& o) {
    if (o.v.empty()) return;
    prep(); o.prep();
    v.insert(v.end(), o.v.begin(), o.v.end());
    std::inplace_merge(v.begin(), v.begin() + static_cast<std::ptrdiff_t>(nsorted), v.end(), TotalLess<K>(cmp));
    nsorted = v.size();
  }
  uint64_t count_lt(const T& x) const { return mult * static_cast<uint64_t>(std::lower_bound(v.begin(), v.end(), x, cmp) - v.begin()); }
  uint64_t count_le(const T& x) const { return mult * static_cast<uint64_t>(std::upper_bound(v.begin(), v.end(), x, cmp) - v.begin()); }
  bool offered(const T& x) const { return std::binary_search(v.begin(), v.end(), x, TotalLess<K>(cmp)); }
};

inline void fcount(const std::string& fam, const std::string& name) { count(fam + "_" + name); }

template<typename C, typename T> inline bool equiv(const C& c, const T& a, const T& b) { return !c(a, b) && !c(b, a); }

inline uint32_t popcount64(uint64_t x) { uint32_t c = 0; for (; x; x &= x - 1) ++c; return c; }
inline uint32_t floor_log2(uint64_t x) { uint32_t l = 0; while (x >>= 1) ++l; return l; }

struct Observed {
  uint64_t n = 0;
  uint32_t retained = 0;
  bool est = false;
  bool empty = true;
  uint64_t min_weight = 0;       // smallest weight in the sorted view (0 if none)
  uint32_t distinct_weights = 0;
};

// ------------------------------------------------------------------------------- observation
// failure reporter shared by all instantiations (kept out of line to keep the templates small)
struct Rep {
  std::string fam, ctx;
  __attribute__((noinline, cold)) void bad(const char* clause, const std::string& extra) const { fail(fam + "|" + clause, ctx + extra); }
};
#define C07_CK(cond, clause, extra) do { ::vf::checked(); if (!(cond)) rep.bad(clause, std::string(extra) + " [" #cond " @" __FILE__ ":" VF_STR(__LINE__) "]"); } while (0)

// `dense`: size of the query grids; `light`: only the side-effect-free part (n, extremes, iteration, space bound).
// `F` only supplies name() and bound().
template<typename F, typename K>
Observed observe(const typename F::template SK<K>& sk, Model<K>& m, Rng& r, const std::string& ctx0, unsigned dense, bool do_invalid, bool light = false) {
  typedef Tr<K> TT;
  typedef typename TT::T T;
  typedef typename TT::Cmp Cmp;
  const Cmp cmp = m.cmp;
  const std::string fam = F::name();
  m.prep();
  Observed o;
  const uint64_t n = sk.get_n();
  const uint64_t N = m.total();          // accepted items
  const uint64_t NV = m.v.size();        // distinct model entries (== N unless the model carries a multiplier)
  const bool flat = m.mult == 1;
  const uint32_t retained = sk.get_num_retained();
  const bool est = sk.is_estimation_mode();
  o.n = n; o.retained = retained; o.est = est; o.empty = sk.is_empty();
  Rep rep;
  rep.fam = fam;
  rep.ctx = ctx0 + " type=" + TT::name() + " " + TT::cmp_str(cmp) + " model_n=" + std::to_string(N) + " n=" + std::to_string(n) +
    " retained=" + std::to_string(retained) + " est=" + (est ? "1" : "0");
  const std::string& ctx = rep.ctx;

  C07_CK(n == N, "get_n|ne-accepted-count", "");
  C07_CK(sk.is_empty() == m.v.empty(), "is_empty|wrong", "");

  // ---------------------------------------------------------------- empty sketch: every query is rejected, nothing to iterate
  if (m.v.empty() || sk.is_empty()) {
    if (!m.v.empty()) return o;          // already reported above; nothing sensible to read
    fcount(fam, "obs_empty");
    C07_CK(retained == 0, "num_retained|nonzero-when-empty", "");
    const bool begin_is_end = (sk.begin() == sk.end());
    C07_CK(begin_is_end, "iterator|empty-begin-ne-end", "");      // and we do not iterate
    const T x = TT::make(7, 0);
    auto view = sk.get_sorted_view();
    C07_CK(view.size() == 0, "sorted_view|nonempty-for-empty-sketch", "");
    C07_CK(view.begin() == view.end(), "sorted_view|empty-begin-ne-end", "");
    static const char* const clause[] = {
      "empty|get_min_item-answers", "empty|get_max_item-answers", "empty|get_rank-answers", "empty|get_rank-answers",
      "empty|get_quantile-answers", "empty|get_quantile-answers", "empty|get_CDF-answers", "empty|get_PMF-answers",
      "empty|get_CDF-answers", "empty|get_PMF-answers", "sorted_view|empty-get_rank-answers", "sorted_view|empty-get_quantile-answers",
      "sorted_view|empty-get_CDF-answers", "sorted_view|empty-get_PMF-answers"};
    for (int w = 0; w < 14; ++w) {
      bool threw = false;
      try {
        switch (w) {
          case 0: (void) sk.get_min_item(); break;
          case 1: (void) sk.get_max_item(); break;
          case 2: (void) sk.get_rank(x, true); break;
          case 3: (void) sk.get_rank(x, false); break;
          case 4: (void) sk.get_quantile(0.5, true); break;
          case 5: (void) sk.get_quantile(0.5, false); break;
          case 6: (void) sk.get_CDF(&x, 1, true); break;
          case 7: (void) sk.get_PMF(&x, 1, false); break;
          case 8: (void) sk.get_CDF(&x, 0, true); break;
          case 9: (void) sk.get_PMF(&x, 0, true); break;
          case 10: (void) view.get_rank(x, true); break;
          case 11: (void) view.get_quantile(0.5, true); break;
          case 12: (void) view.get_CDF(&x, 1, true); break;
          default: (void) view.get_PMF(&x, 1, true); break;
        }
      } catch (const std::exception&) { threw = true; }
      C07_CK(threw, clause[w], "");
    }
    F::template bound<K>(sk, retained, n, ctx);
    sig(mix64(0xE, 0));
    return o;
  }

  // ---------------------------------------------------------------- extremes
  {
    const T mn = sk.get_min_item();
    const T mx = sk.get_max_item();
    C07_CK(equiv(cmp, mn, m.v.front()) && m.offered(mn), "get_min_item|not-stream-min", " got=" + TT::show(mn) + " want=" + TT::show(m.v.front()));
    C07_CK(equiv(cmp, mx, m.v.back()) && m.offered(mx), "get_max_item|not-stream-max", " got=" + TT::show(mx) + " want=" + TT::show(m.v.back()));
  }

  // ---------------------------------------------------------------- iteration (guarded: never more than retained steps)
  typedef std::vector<std::pair<T, uint64_t>> IW;
  IW its;
  its.reserve(retained);
  bool weight_sum_ok = false;
  {
    auto it = sk.begin();
    const auto end = sk.end();
    C07_CK(it != end, "iterator|nonempty-begin-eq-end", "");
    uint32_t cnt = 0;
    while (cnt < retained && it != end) {
      const auto p = *it;
      its.emplace_back(p.first, p.second);
      ++it; ++cnt;
    }
    C07_CK(cnt == retained, "iterator|fewer-than-num_retained", " iterated=" + std::to_string(cnt));
    C07_CK(!(it != end), "iterator|more-than-num_retained", "");
    uint64_t wsum = 0; bool pow2 = true, offered = true, inrange = true;
    std::string bad;
    for (const auto& p: its) {
      wsum += p.second;
      if (p.second == 0 || (p.second & (p.second - 1)) != 0) { pow2 = false; bad = std::to_string(p.second); }
      if (!m.offered(p.first)) { offered = false; bad = TT::show(p.first); }
      if (cmp(p.first, m.v.front()) || cmp(m.v.back(), p.first)) inrange = false;
    }
    weight_sum_ok = (wsum == n);
    C07_CK(wsum == n, "iterator|weight-sum", " sum_weights=" + std::to_string(wsum));
    C07_CK(pow2, "iterator|weight-not-power-of-two", " weight=" + bad);
    C07_CK(offered, "iterator|item-not-in-stream", " item=" + bad);
    C07_CK(inrange, "iterator|item-outside-min-max", "");
  }
  F::template bound<K>(sk, retained, n, ctx);
  // fewer retained entries than accepted items means something was compacted, so the sketch is no longer exact
  C07_CK(est || its.size() >= n, "is_estimation_mode|false-though-items-were-compacted", " iterated=" + std::to_string(its.size()));
  if (light) {
    // read-out without side effects: queries and the sorted view sort level 0 / the base buffer and cache the view,
    // so some sketches must reach their next merge or update without ever having been queried
    uint64_t wmask = 0;
    for (const auto& p: its) wmask |= p.second;
    o.min_weight = wmask & (~wmask + 1);
    o.distinct_weights = popcount64(wmask);
    fcount(fam, "obs_light");
    sig(mix64(mix64(n, retained), mix64(est ? 3 : 2, mix64(o.min_weight, o.distinct_weights))));
    return o;
  }

  // ---------------------------------------------------------------- query items (no sketch access yet)
  const int l0_unsorted = F::template level0_unsorted<K>(sk);     // 1 unsorted, 0 sorted, -1 not published by the sketch
  std::vector<T> q;
  {
    if (NV <= dense) q = m.v;
    else { for (unsigned i = 0; i < dense; ++i) q.push_back(m.v[r.below(NV)]); q.push_back(m.v.front()); q.push_back(m.v.back()); }
    // fresh points around the key range actually present
    for (unsigned i = 0; i < dense / 2 + 2; ++i) q.push_back(TT::make(static_cast<int64_t>(r.below(4 * NV + 64)) - 8, 0xffffffffu));
    for (int i = 0; i < TT::n_special(); ++i) { const T s = TT::special(i, 0xffffffffu); if (TT::accepted(s)) q.push_back(s); }
    std::sort(q.begin(), q.end(), cmp);
  }
  std::vector<T> uq;   // strictly increasing by cmp
  for (const T& x: q) if (uq.empty() || cmp(uq.back(), x)) uq.push_back(x);

  // The query groups below run in random order and more than once per observation: the sorted view is cached by the
  // view-based queries (get_quantile / get_CDF / get_PMF) while get_rank may take another path (REQ) and queries sort
  // level 0 / the base buffer as a side effect, so every interleaving must give the same coherent answers, and a view
  // object taken earlier must still be ordered after later const queries.
  typedef decltype(sk.get_sorted_view()) View;

  // ---------------------------------------------------------------- sorted view (first = also compare with the iteration)
  auto check_view = [&](const View& view, bool first, bool with_iteration, const char* when) {
    const std::string w = std::string(" view=") + when;
    C07_CK(view.size() == retained, "sorted_view|size-ne-num_retained", w + " size=" + std::to_string(view.size()));
    IW ve;
    ve.reserve(view.size());
    uint64_t prev_cum = 0; bool ordered = true, increasing = true, acc_ok = true;
    size_t i = 0;
    uint64_t wmask = 0; bool odd_w = false;
    for (auto vit = view.begin(); vit != view.end(); ++vit, ++i) {
      const auto e = *vit;
      const uint64_t cum = e.second;
      if (i > 0 && cmp(e.first, ve.back().first)) ordered = false;
      if (cum <= prev_cum) increasing = false;
      if (vit.get_weight() != cum - prev_cum || vit.get_cumulative_weight(true) != cum || vit.get_cumulative_weight(false) != prev_cum) acc_ok = false;
      const uint64_t wt = cum - prev_cum;
      ve.emplace_back(e.first, wt);
      if (wt && !(wt & (wt - 1))) wmask |= wt; else odd_w = true;
      prev_cum = cum;
    }
    C07_CK(i == view.size(), "sorted_view|iteration-count-ne-size", w);
    C07_CK(ordered, "sorted_view|not-ordered", w);
    C07_CK(increasing, "sorted_view|cumulative-weight-not-increasing", w);
    C07_CK(acc_ok, "sorted_view|weight-accessors-inconsistent", w);
    C07_CK(prev_cum == n, "sorted_view|total-weight-ne-n", w + " total=" + std::to_string(prev_cum));
    if (first) {
      o.min_weight = wmask & (~wmask + 1);
      o.distinct_weights = popcount64(wmask) + (odd_w ? 1 : 0);
    }
    // the view shows the same retained (item, weight) multiset as the iterator
    if (with_iteration && ve.size() == its.size()) {
      auto lt = [&cmp](const std::pair<T, uint64_t>& a, const std::pair<T, uint64_t>& b) {
        if (TT::total_less(cmp, a.first, b.first)) return true;
        if (TT::total_less(cmp, b.first, a.first)) return false;
        return a.second < b.second;
      };
      if (first) std::sort(its.begin(), its.end(), lt);
      std::sort(ve.begin(), ve.end(), lt);
      bool same_items = true, same_weights = true;
      for (size_t j = 0; j < its.size(); ++j) {
        if (TT::total_less(cmp, its[j].first, ve[j].first) || TT::total_less(cmp, ve[j].first, its[j].first)) same_items = false;
        else if (its[j].second != ve[j].second) same_weights = false;
      }
      C07_CK(same_items, "sorted_view|items-differ-from-iteration", w);
      if (weight_sum_ok && same_items) C07_CK(same_weights, "sorted_view|weights-differ-from-iteration", w);
    }
  };

  // ---------------------------------------------------------------- ranks (every `step`-th query item)
  auto g_ranks = [&](size_t step) {
    double prev_i = 0, prev_e = 0;
    unsigned n_top = 0, n_bottom = 0;
    const double dn = static_cast<double>(n);
    bool have_prev = false;
    for (size_t i = 0; i < q.size(); i += step) {
      const double ri = sk.get_rank(q[i], true);
      const double re = sk.get_rank(q[i], false);
      double wi = ri, we = re;
      if (!est) { wi = static_cast<double>(m.count_le(q[i])) / dn; we = static_cast<double>(m.count_lt(q[i])) / dn; }
      // every retained item lies in [min, max] and the weights sum to n, hence:
      const bool below_min = cmp(q[i], m.v.front()), at_or_above_max = !cmp(q[i], m.v.back());
      const bool ends_ok = (!below_min || (ri == 0 && re == 0)) && (!at_or_above_max || ri == 1);
      if (at_or_above_max) ++n_top;
      if (below_min) ++n_bottom;
      const bool ok = re >= 0 && ri <= 1 && ri >= re && (!have_prev || (ri >= prev_i && re >= prev_e)) && ri == wi && re == we && ends_ok;
      checked(8);
      if (!ok) {
        const std::string d = " item=" + TT::show(q[i]) + " incl=" + str(ri) + " excl=" + str(re) + " prev_incl=" + str(prev_i) + " prev_excl=" + str(prev_e) +
          (est ? std::string() : " true_incl=" + str(wi) + " true_excl=" + str(we));
        C07_CK(re >= 0 && ri <= 1, "get_rank|outside-0-1", d);
        C07_CK(ri >= re, "get_rank|inclusive-lt-exclusive", d);
        C07_CK(!have_prev || ri >= prev_i, "get_rank|inclusive-not-monotone", d);
        C07_CK(!have_prev || re >= prev_e, "get_rank|exclusive-not-monotone", d);
        C07_CK(ri == wi, "get_rank|exact-mode-inclusive-ne-true", d);
        C07_CK(re == we, "get_rank|exact-mode-exclusive-ne-true", d);
        C07_CK(!below_min || (ri == 0 && re == 0), "get_rank|below-min-ne-0", d);
        C07_CK(!at_or_above_max || ri == 1, "get_rank|at-or-above-max-inclusive-ne-1", d);
      }
      prev_i = ri; prev_e = re; have_prev = true;
    }
    if (n_top) fcount(fam, "obs_rank_at_or_above_max");
    if (n_bottom) fcount(fam, "obs_rank_below_min");
  };
  // ---------------------------------------------------------------- quantiles (grid of about 1.5 d ranks)
  auto g_quantiles = [&](unsigned d) {
    struct RQ { double rank; int64_t idx; };   // idx >= 0: rank == (idx + 0.5) / n, off every rounding boundary
    std::vector<RQ> rq;
    rq.push_back(RQ{0.0, -2}); rq.push_back(RQ{1.0, -3});
    if (!flat) { for (unsigned i = 0; i < d; ++i) rq.push_back(RQ{r.unit(), -1}); }
    else if (N <= d) for (uint64_t i = 0; i < N; ++i) rq.push_back(RQ{(static_cast<double>(i) + 0.5) / static_cast<double>(N), static_cast<int64_t>(i)});
    else for (unsigned i = 0; i < d; ++i) { const uint64_t j = r.below(N); rq.push_back(RQ{(static_cast<double>(j) + 0.5) / static_cast<double>(N), static_cast<int64_t>(j)}); }
    for (unsigned i = 0; i < d / 2 + 2; ++i) rq.push_back(RQ{r.unit(), -1});
    std::sort(rq.begin(), rq.end(), [](const RQ& a, const RQ& b) { return a.rank < b.rank; });
    std::vector<T> qs;      // inclusive, exclusive alternating
    qs.reserve(2 * rq.size());
    for (const RQ& x: rq) { qs.push_back(sk.get_quantile(x.rank, true)); qs.push_back(sk.get_quantile(x.rank, false)); }
    for (size_t i = 0; i < rq.size(); ++i) {
      const RQ& x = rq[i];
      const T& qi = qs[2 * i];
      const T& qe = qs[2 * i + 1];
      const T* want = nullptr;     // true quantile while the sketch is exact
      if (!est && n == N && flat) {
        if (x.idx >= 0) want = &m.v[static_cast<size_t>(x.idx)];
        else if (x.idx == -2) want = &m.v.front();
        else if (x.idx == -3) want = &m.v.back();
        else {
          const double t = x.rank * static_cast<double>(N);
          const double fr = t - std::floor(t);
          // documented definitions away from rounding boundaries: inclusive ceil(t) - 1 == floor(t), exclusive floor(t)
          if (fr > 1e-6 && fr < 1 - 1e-6) want = &m.v[std::min<size_t>(static_cast<size_t>(std::floor(t)), N - 1)];
        }
      }
      const bool mono_i = i == 0 || !cmp(qi, qs[2 * i - 2]);
      const bool mono_e = i == 0 || !cmp(qe, qs[2 * i - 1]);
      const bool ex_i = !want || equiv(cmp, qi, *want);
      const bool ex_e = !want || equiv(cmp, qe, *want);
      checked(4);
      if (!(mono_i && mono_e && ex_i && ex_e)) {
        const std::string d2 = " rank=" + str(x.rank) + " incl=" + TT::show(qi) + " excl=" + TT::show(qe) +
          (i ? " prev_incl=" + TT::show(qs[2 * i - 2]) + " prev_excl=" + TT::show(qs[2 * i - 1]) : std::string()) + (want ? " true=" + TT::show(*want) : std::string());
        C07_CK(mono_i, "get_quantile|inclusive-not-monotone", d2);
        C07_CK(mono_e, "get_quantile|exclusive-not-monotone", d2);
        C07_CK(ex_i, "get_quantile|exact-mode-inclusive-ne-true", d2);
        C07_CK(ex_e, "get_quantile|exact-mode-exclusive-ne-true", d2);
      }
    }
  };
  // ---------------------------------------------------------------- CDF / PMF (`reps` split-point sets: a few points, then a dense set)
  auto g_cdf = [&](int reps, unsigned d) {
    for (int rep_i = 0; rep_i < reps; ++rep_i) {
      const unsigned mwant = rep_i == 0 ? static_cast<unsigned>(r.below(9)) : static_cast<unsigned>(std::min<size_t>(uq.size(), d));
      std::vector<T> sp;
      if (mwant >= uq.size()) sp = uq;
      else {
        std::vector<size_t> ix;
        for (unsigned i = 0; i < mwant; ++i) ix.push_back(r.below(uq.size()));
        std::sort(ix.begin(), ix.end()); ix.erase(std::unique(ix.begin(), ix.end()), ix.end());
        for (size_t j: ix) sp.push_back(uq[j]);
      }
      const uint32_t ms = static_cast<uint32_t>(sp.size());
      const T dummy = TT::make(0, 0);
      const T* ptr = ms ? sp.data() : &dummy;
      for (int inc = 0; inc < 2; ++inc) {
        const bool incl = inc == 1;
        typename F::template SK<K>::vector_double cdf, pmf;
        try { cdf = sk.get_CDF(ptr, ms, incl); pmf = sk.get_PMF(ptr, ms, incl); }
        catch (const std::exception& e) {
          // split points that are unique and increasing under the sketch's comparator instance are a valid query
          checked(); rep.bad("get_CDF-get_PMF|valid-split-points-rejected", std::string(" splits=") + std::to_string(ms) + " what=" + e.what());
          continue;
        }
        const bool sizes = cdf.size() == ms + 1u && pmf.size() == ms + 1u;
        bool cdf_rank = true, pmf_nonneg = true, pmf_diff = true;
        double sum = 0;
        if (sizes) for (uint32_t i = 0; i <= ms; ++i) {
          if (i < ms && cdf[i] != sk.get_rank(sp[i], incl)) cdf_rank = false;
          if (!(pmf[i] >= 0)) pmf_nonneg = false;
          const double want = i == 0 ? cdf[0] : cdf[i] - cdf[i - 1];
          if (!(std::fabs(pmf[i] - want) <= 1e-12)) pmf_diff = false;
          sum += pmf[i];
        }
        const bool last1 = sizes && cdf[ms] == 1.0;
        const bool sum1 = std::fabs(sum - 1.0) <= 1e-12;
        checked(6);
        if (!(sizes && cdf_rank && pmf_nonneg && pmf_diff && last1 && sum1)) {
          const std::string d2 = " splits=" + std::to_string(ms) + " inclusive=" + std::to_string(inc) + " pmf_sum=" + str(sum) + (sizes ? " cdf_last=" + str(cdf[ms]) : std::string());
          C07_CK(sizes, "get_CDF-get_PMF|result-size", d2);
          C07_CK(cdf_rank, "get_CDF|ne-rank-of-split-point", d2);
          C07_CK(last1, "get_CDF|last-ne-1", d2);
          C07_CK(pmf_nonneg, "get_PMF|negative-mass", d2);
          C07_CK(pmf_diff, "get_PMF|ne-CDF-differences", d2);
          C07_CK(sum1, "get_PMF|sum-ne-1", d2);
        }
      }
    }
  };

  // ---------------------------------------------------------------- interleaving
  {
    std::unique_ptr<View> view0, view1;
    bool view_based_before_first_rank = false, ranked = false, view_after_rank_after_view = false;
    auto run_group = [&](int g, bool full) {
      const unsigned d = full ? dense : std::max(8u, dense / 3);
      if (g == 0) { g_ranks(full ? 1 : 3); ranked = true; }
      else {
        if (g == 1) g_quantiles(d); else g_cdf(full ? 2 : 1, d);
        if (!ranked) view_based_before_first_rank = true;
        else if (view_based_before_first_rank) view_after_rank_after_view = true;
      }
    };
    int perm[3] = {0, 1, 2};
    auto shuffle3 = [&]() { for (int i = 2; i > 0; --i) std::swap(perm[i], perm[r.below(static_cast<uint64_t>(i) + 1)]); };
    const unsigned view0_at = static_cast<unsigned>(r.below(3));     // the explicit view is taken before group 0, 1 or 2 of pass A
    shuffle3();
    for (unsigned gi = 0; gi < 3; ++gi) {
      if (gi == view0_at) {
        view0.reset(new View(sk.get_sorted_view()));
        check_view(*view0, true, true, "taken-before-queries");
        if (!ranked) view_based_before_first_rank = true; else if (view_based_before_first_rank) view_after_rank_after_view = true;
      }
      run_group(perm[gi], true);
    }
    check_view(*view0, false, false, "earlier-view-rechecked-after-queries");
    view1.reset(new View(sk.get_sorted_view()));
    check_view(*view1, false, false, "taken-after-first-pass");
    shuffle3();
    for (unsigned gi = 0; gi < 3; ++gi) run_group(perm[gi], false);
    run_group(1 + static_cast<int>(r.below(2)), false);      // a view-based group always comes last, after every get_rank
    check_view(*view0, false, true, "earlier-view-rechecked-at-end");
    check_view(*view1, false, false, "second-view-rechecked-at-end");
    if (!est) fcount(fam, "obs_exact_mode");
    if (view_after_rank_after_view) {
      fcount(fam, "obs_view_query_after_rank_after_view_query");
      if (l0_unsorted == 1) fcount(fam, "obs_view_rank_view_on_unsorted_level0");
      if (l0_unsorted == 1 && !std::is_arithmetic<T>::value) fcount(fam, "obs_view_rank_view_on_unsorted_level0_nonarith");
    }
  }
  // ---------------------------------------------------------------- invalid queries are rejected
  if (do_invalid) {
    fcount(fam, "obs_invalid_queries");
    const double inf = std::numeric_limits<double>::infinity();
    const size_t U = uq.size();
    size_t a = 0, b = 0;
    if (U >= 2) { a = r.below(U - 1); b = a + 1 + r.below(U - 1 - a); }
    const T& ua = uq[a]; const T& ub = uq[b];
    const T unsorted[2] = {ub, ua};
    const T dup[2] = {ua, ua};
    const T dup3[3] = {uq[0], uq[U - 1], uq[U - 1]};
    const T uns3[3] = {uq[0], uq[U >= 3 ? 2 : 0], uq[U >= 3 ? 1 : 0]};
    const T nan1[1] = {TT::nan()};
    const T nan_last[2] = {uq[0], TT::nan()};
    const T nan_first[2] = {TT::nan(), uq[0]};
    static const char* const clause[] = {
      "get_quantile|rank-below-0-answered", "get_quantile|rank-above-1-answered", "get_quantile|rank-below-0-answered", "get_quantile|rank-above-1-answered",
      "get_quantile|nan-rank-answered",
      "get_CDF|unsorted-split-points-answered", "get_PMF|unsorted-split-points-answered", "get_CDF|duplicate-split-points-answered", "get_PMF|duplicate-split-points-answered",
      "get_CDF|duplicate-split-points-answered", "get_PMF|unsorted-split-points-answered",
      "get_CDF|nan-split-point-answered", "get_PMF|nan-split-point-answered", "get_CDF|nan-split-point-answered", "get_PMF|nan-split-point-answered"};
    for (int inc = 0; inc < 2; ++inc) {
      const bool incl = inc == 1;
      for (int w = 0; w < 15; ++w) {
        if (w >= 5 && w <= 8 && U < 2) continue;
        if (w >= 9 && w <= 10 && U < 3) continue;
        if (w >= 11 && !TT::has_nan) continue;
        bool threw = false;
        try {
          switch (w) {
            case 0: (void) sk.get_quantile(-1e-9, incl); break;
            case 1: (void) sk.get_quantile(1.0 + 1e-9, incl); break;
            case 2: (void) sk.get_quantile(-inf, incl); break;
            case 3: (void) sk.get_quantile(inf, incl); break;
            case 4: (void) sk.get_quantile(std::numeric_limits<double>::quiet_NaN(), incl); break;
            case 5: (void) sk.get_CDF(unsorted, 2, incl); break;
            case 6: (void) sk.get_PMF(unsorted, 2, incl); break;
            case 7: (void) sk.get_CDF(dup, 2, incl); break;
            case 8: (void) sk.get_PMF(dup, 2, incl); break;
            case 9: (void) sk.get_CDF(dup3, 3, incl); break;
            case 10: (void) sk.get_PMF(uns3, 3, incl); break;
            case 11: (void) sk.get_CDF(nan1, 1, incl); break;
            case 12: (void) sk.get_PMF(nan1, 1, incl); break;
            case 13: (void) sk.get_CDF(nan_last, 2, incl); break;
            default: (void) sk.get_PMF(nan_first, 2, incl); break;
          }
        } catch (const std::exception&) { threw = true; }
        C07_CK(threw, clause[w], " inclusive=" + std::to_string(inc));
      }
    }
  }
  sig(mix64(mix64(n, retained), mix64(est ? 1 : 0, mix64(o.min_weight, o.distinct_weights))));
  return o;
}

// ------------------------------------------------------------------------------- stream generator
enum Shape { S_SORTED, S_REVERSED, S_RANDOM, S_CONSTANT, S_HEAVY_DUP, S_TWO_POINT, S_SAWTOOTH, S_NSHAPES };
inline const char* shape_name(int s) { static const char* n[] = {"sorted", "reversed", "random", "constant", "heavydup", "twopoint", "sawtooth"}; return n[s]; }

template<typename K>
std::vector<typename Tr<K>::T> gen_stream(Rng& r, uint64_t n, int shape, int64_t base, double p_special, uint32_t& serial) {
  typedef Tr<K> TT;
  typedef typename TT::T T;
  std::vector<T> out;
  out.reserve(n);
  const uint64_t dom = r.chance(0.5) ? std::max<uint64_t>(1, n / 4) : n * 4 + 1;
  const int64_t c0 = base + static_cast<int64_t>(r.below(n + 1));
  const int64_t c1 = c0 + 1 + static_cast<int64_t>(r.below(n + 5));
  const uint64_t few = 2 + r.below(4);
  const uint64_t period = 2 + r.below(17);
  for (uint64_t i = 0; i < n; ++i) {
    if (p_special > 0 && r.chance(p_special)) { out.push_back(TT::special(static_cast<int>(r.below(static_cast<uint64_t>(TT::n_special()))), serial++)); continue; }
    int64_t key;
    switch (shape) {
      case S_SORTED: key = base + static_cast<int64_t>(i); break;
      case S_REVERSED: key = base + static_cast<int64_t>(n - 1 - i); break;
      case S_RANDOM: key = base + static_cast<int64_t>(r.below(dom)); break;
      case S_CONSTANT: key = c0; break;
      case S_HEAVY_DUP: key = base + static_cast<int64_t>(r.below(few)) * 7; break;
      case S_TWO_POINT: key = r.coin() ? c0 : c1; break;
      default: key = base + static_cast<int64_t>(i % period); break;
    }
    out.push_back(TT::make(key, serial++));
  }
  return out;
}

// ------------------------------------------------------------------------------- merge-tree case
template<typename F, typename K> struct Node {
  std::unique_ptr<typename F::template SK<K>> sk;
  Model<K> m;
  uint32_t k0 = 0;
  std::string hist;
};

inline const char* mode_name(bool empty, bool est) { return empty ? "empty" : (est ? "est" : "exact"); }

template<typename F, typename K>
bool feed(typename F::template SK<K>& sk, Model<K>& m, const std::vector<typename Tr<K>::T>& items, Rng& r) {
  typedef typename Tr<K>::T T;
  const bool rv = r.chance(0.3);
  size_t i = 0;
  try {
    for (const T& x: items) {
      m.add(x);
      if (rv) { T c(x); sk.update(std::move(c)); } else sk.update(x);
      ++i;
    }
  } catch (const std::exception& e) {
    // update() of a valid item must not throw; the case ends here (model and sketch have diverged)
    checked();
    fail(std::string(F::name()) + "|update|threw", std::string("update of a valid item threw: ") + e.what() + " type=" + Tr<K>::name() + " item " + std::to_string(i) + " of the batch (" +
         Tr<K>::show(items[i]) + "), get_n=" + std::to_string(sk.get_n()) + " accepted so far=" + std::to_string(m.total()) + " k=" + std::to_string(sk.get_k()) + " ; " + G().cur_desc);
    return false;
  }
  checked();
  return true;
}

template<typename F, typename K>
void run_case_t(uint64_t idx, Rng& r) {
  typedef Tr<K> TT;
  typedef typename TT::T T;
  typedef typename F::template SK<K> SK;
  typedef Node<F, K> N;
  const bool TH = G().thorough();
  const std::string fam = F::name();
  const uint32_t s1 = static_cast<uint32_t>(r.next()), s2 = static_cast<uint32_t>(r.next());
  datasketches::random_utils::rand.seed(s1);
  datasketches::random_utils::random_bit.seed(s2);
  const typename F::Cfg cfg = F::cfg(r);
  const typename TT::Cmp cmp0 = TT::make_cmp(r);     // one comparator instance for the whole tree (no draw for stateless kinds)
  if (TT::stateful) fcount(fam, TT::cmp_is_default(cmp0) ? "dircmp_cases_default_state" : "dircmp_cases_nondefault_state");
  const unsigned nleaves = static_cast<unsigned>(r.range(2, 12));
  const bool equal_k = r.chance(0.45);
  const uint32_t k_common = F::pick_k(r, TH);
  const bool arith = std::is_arithmetic<T>::value;
  // size budget of an estimating leaf
  const bool huge = TH && arith && r.chance(0.004);
  const bool big = !huge && r.chance(TH ? 0.04 : 0.05);
  const uint64_t est_max = huge ? 1000000 : (big ? (TH ? 50000 : 6000) : (TH ? 3000 : 800));
  const double p_special = r.chance(0.35) ? (r.chance(0.2) ? 0.5 : 0.03) : 0.0;
  const bool overlap = r.coin();
  const unsigned dense = TH ? 48 : 32;
  describe(fam + " type=" + TT::name() + " " + TT::cmp_str(cmp0) + " " + F::cfg_str(cfg) + " leaves=" + std::to_string(nleaves) + " k=" + std::to_string(k_common) +
           (equal_k ? "(all)" : "(first)") + " est_max=" + std::to_string(est_max) + " p_special=" + str(p_special) + " coin_seeds=" + std::to_string(s1) + "," + std::to_string(s2));
  fcount(fam, std::string("type_") + TT::name());

  uint32_t serial = 0;
  std::vector<N> pool;
  pool.reserve(nleaves + 2);
  std::string sample_leaves;
  int64_t next_base = 0;
  auto grow_leaf = [&](N& nd, const char* what) -> bool {
    // one update batch into nd
    const uint32_t k = nd.k0;
    const uint64_t cap = F::exact_cap(k);
    const uint64_t cls = r.below(100);
    uint64_t n;
    if (cls < 12) n = 0;
    else if (cls < 22) n = 1;
    else if (cls < 50) n = 2 + r.below(std::max<uint64_t>(1, cap - 1));
    else if (cls < 62) { static const int64_t off[] = {-1, 0, 1, 2}; const uint64_t mult = 1 + r.below(3); n = static_cast<uint64_t>(std::max<int64_t>(0, static_cast<int64_t>(cap * mult) + off[r.below(4)])); }
    else n = cap + 1 + r.below(std::max<uint64_t>(est_max, cap + 2) - cap);
    n = std::min<uint64_t>(n, est_max * 2);
    const int shape = static_cast<int>(r.below(S_NSHAPES));
    const int64_t base = overlap ? static_cast<int64_t>(r.below(64)) : next_base;
    next_base += static_cast<int64_t>(n) + 3;
    const double ps = (TT::has_nan && r.chance(0.02)) ? 1.0 : p_special;    // an all-special (mostly NaN) batch now and then
    const std::vector<T> items = gen_stream<K>(r, n, shape, base, ps, serial);
    if (!feed<F, K>(*nd.sk, nd.m, items, r)) return false;
    for (const T& x: items) if (!TT::accepted(x)) { fcount(fam, "nan_offered"); break; }
    fcount(fam, std::string("shape_") + shape_name(shape));
    nd.hist += std::string(what) + "(" + shape_name(shape) + "," + std::to_string(n) + ")";
    if (want_sample() && sample_leaves.size() < 400) sample_leaves += "k" + std::to_string(k) + ":" + shape_name(shape) + ":" + std::to_string(n) + ";";
    return true;
  };
  auto obs = [&](N& nd, const char* after, bool after_merge, unsigned d, bool light = false) {
    const Observed o = observe<F, K>(*nd.sk, nd.m, r, std::string("after ") + after + " " + F::cfg_str(cfg) + " k=" + std::to_string(nd.sk->get_k()) + " hist=" + nd.hist.substr(nd.hist.size() > 300 ? nd.hist.size() - 300 : 0),
                                     d, r.chance(0.35), light);
    F::template counters<K>(*nd.sk, o, after_merge);
    return o;
  };

  for (unsigned i = 0; i < nleaves; ++i) {
    N nd;
    nd.m = Model<K>(cmp0);
    nd.k0 = equal_k ? k_common : (i == 0 ? k_common : F::pick_k(r, TH));
    nd.sk.reset(new SK(F::template make<K>(nd.k0, cfg, cmp0)));
    pool.push_back(std::move(nd));
    N& L = pool.back();
    if (r.chance(0.15)) obs(L, "construction", false, 8);
    if (!grow_leaf(L, "upd")) return;
    const Observed o = obs(L, "leaf-updates", false, dense, r.chance(0.5));
    fcount(fam, std::string("leaf_") + mode_name(o.empty, o.est));
    if (r.chance(0.15)) { if (!grow_leaf(L, "upd")) return; obs(L, "leaf-updates-2", false, dense, r.chance(0.5)); }
  }
  // occasionally a copy of a leaf joins the tree (a sketch merged with its own copy)
  if (r.chance(0.15)) {
    const size_t a = r.below(pool.size());
    N c; c.k0 = pool[a].k0; c.m = pool[a].m; c.hist = "copy[" + pool[a].hist + "]";
    c.sk.reset(new SK(*pool[a].sk));
    pool.push_back(std::move(c));
    obs(pool.back(), "copy-construction", false, 16);
    fcount(fam, "copy_leaf");
  }

  while (pool.size() > 1) {
    const size_t a = r.below(pool.size());
    size_t b = r.below(pool.size() - 1); if (b >= a) ++b;
    N& A = pool[a]; N& B = pool[b];
    const bool rvalue = r.chance(0.4);
    const bool a_empty = A.sk->is_empty(), b_empty = B.sk->is_empty();
    const bool a_est = A.sk->is_estimation_mode(), b_est = B.sk->is_estimation_mode();
    const uint32_t ka = A.sk->get_k(), kb = B.sk->get_k();
    const std::string cls = std::string("merge_") + mode_name(a_empty, a_est) + "_from_" + mode_name(b_empty, b_est) + "_k" + (ka < kb ? "lt" : (ka == kb ? "eq" : "gt"));
    fcount(fam, cls); fcount(fam, rvalue ? "merge_rvalue" : "merge_lvalue");
    A.hist += std::string(rvalue ? " <=rv[" : " <=lv[") + "k" + std::to_string(kb) + ":" + B.hist.substr(0, 80) + "]";
    try {
      if (rvalue) A.sk->merge(std::move(*B.sk)); else A.sk->merge(*B.sk);
    } catch (const std::exception& e) {
      checked();
      fail(fam + "|merge|threw", std::string("merge of two valid sketches threw: ") + e.what() + " " + cls + " hist=" + A.hist);
      return;
    }
    A.m.absorb(B.m);
    obs(A, cls.c_str(), true, dense, r.chance(0.3));
    if (!rvalue && r.chance(0.3)) { obs(B, "being-merge-source", false, 12); fcount(fam, "source_reobserved"); }
    if (r.chance(0.25)) { if (!grow_leaf(A, " upd")) return; obs(A, "updates-after-merge", true, dense, r.chance(0.5)); fcount(fam, "update_after_merge"); }
    if (F::self_merge_ok && r.chance(0.04)) {     // x.merge(x): the stream twice
      try { SK& self = *A.sk; A.sk->merge(self); }
      catch (const std::exception& e) { checked(); fail(fam + "|merge|threw", std::string("merging a sketch with itself threw: ") + e.what() + " hist=" + A.hist); return; }
      { Model<K> twin = A.m; A.m.absorb(twin); }
      A.hist += " <=self"; obs(A, "self-merge", true, dense, r.chance(0.3)); fcount(fam, "self_merge");
    }
    if (r.chance(0.04)) { SK& self = *A.sk; SK& same = *A.sk; self = same; A.hist += " self="; obs(A, "self-copy-assignment", true, 16); fcount(fam, "self_assign"); }
    if constexpr (TT::stateful) {
      // the comparator instance must survive moves and (where deserialize takes one) serialization round trips
      if (r.chance(0.12)) { SK moved(std::move(*A.sk)); *A.sk = std::move(moved); A.hist += " moved"; obs(A, "move-construct-and-move-assign", true, dense, r.chance(0.3)); fcount(fam, "dircmp_moved"); }
      if (r.chance(0.15)) {
        try { SK back(F::template roundtrip<K>(*A.sk, cmp0, r.coin())); *A.sk = std::move(back); }
        catch (const std::exception& e) { checked(); fail(fam + "|roundtrip|threw", std::string("serialize/deserialize of a valid sketch threw: ") + e.what() + " hist=" + A.hist); return; }
        A.hist += " serde"; obs(A, "serialize-deserialize-with-comparator-instance", true, dense, r.chance(0.3)); fcount(fam, "dircmp_roundtrip");
      }
    }
    if (r.chance(0.04)) {     // the merge source is overwritten by a copy of the result before it is dropped
      *B.sk = *A.sk; B.m = A.m; B.hist = "assigned[" + A.hist.substr(0, 60) + "]";
      obs(B, "copy-assignment", true, 16); fcount(fam, "copy_assign");
    }
    pool.erase(pool.begin() + static_cast<std::ptrdiff_t>(b));
  }
  N& root = pool[0];
  const Observed fo = obs(root, "whole-tree", true, TH ? 200 : 96);
  fcount(fam, std::string("root_") + mode_name(fo.empty, fo.est));
  if (want_sample()) sample("{\"family\":" + jstr(fam) + ",\"config\":" + jstr(G().cur_desc) + ",\"leaves\":" + jstr(sample_leaves) + ",\"root_n\":" + std::to_string(fo.n) +
                            ",\"root_retained\":" + std::to_string(fo.retained) + ",\"root_estimation\":" + (fo.est ? "true" : "false") + "}");
  (void) idx;
}

// ------------------------------------------------------------------------------- huge-n case
// A small sketch is merged with copies of itself until n passes 2^32 (just below / exactly / above, depending on the
// starting length): every accepted item's multiplicity doubles per merge, extremes stay, so the exact model is the
// starting multiset with a 64-bit multiplier.  All 64-bit weight arithmetic (iterator weights, sorted view, ranks
// summed per level, CDF/PMF) is observed against it.
template<typename F, typename K>
void run_case_huge(uint64_t idx, Rng& r) {
  typedef Tr<K> TT;
  typedef typename TT::T T;
  typedef typename F::template SK<K> SK;
  const std::string fam = F::name();
  const uint32_t s1 = static_cast<uint32_t>(r.next()), s2 = static_cast<uint32_t>(r.next());
  datasketches::random_utils::rand.seed(s1);
  datasketches::random_utils::random_bit.seed(s2);
  const typename F::Cfg cfg = F::cfg(r);
  const typename TT::Cmp cmp0 = TT::make_cmp(r);
  if (TT::stateful) fcount(fam, TT::cmp_is_default(cmp0) ? "dircmp_cases_default_state" : "dircmp_cases_nondefault_state");
  const uint32_t k = F::pick_k(r, false);
  static const uint64_t n0s[] = {4096, 4095, 4097, 2048, 2047, 1024, 3000, 1500, 777};
  const uint64_t n0 = r.chance(0.25) ? 300 + r.below(5000) : n0s[r.below(sizeof n0s / sizeof n0s[0])];
  const int shape = static_cast<int>(r.below(S_NSHAPES));
  const double p_special = r.chance(0.3) ? 0.03 : 0.0;
  unsigned d_cross = 0;                       // doublings until n >= 2^32
  while ((n0 << d_cross) < (1ULL << 32)) ++d_cross;
  const unsigned doublings = d_cross + static_cast<unsigned>(r.below(3));
  describe(fam + " HUGE type=" + TT::name() + " " + TT::cmp_str(cmp0) + " " + F::cfg_str(cfg) + " k=" + std::to_string(k) + " n0=" + std::to_string(n0) + " shape=" + shape_name(shape) +
           " doublings=" + std::to_string(doublings) + " p_special=" + str(p_special) + " coin_seeds=" + std::to_string(s1) + "," + std::to_string(s2));
  fcount(fam, "huge_cases");
  fcount(fam, std::string("huge_type_") + TT::name());
  uint32_t serial = 0;
  SK sk(F::template make<K>(k, cfg, cmp0));
  Model<K> m(cmp0);
  const std::vector<T> items = gen_stream<K>(r, n0, shape, 0, p_special, serial);
  if (!feed<F, K>(sk, m, items, r)) return;
  m.prep();
  if (m.v.empty()) return;
  auto obs = [&](const char* after, bool light) {
    const Observed o = observe<F, K>(sk, m, r, std::string("after ") + after + " " + F::cfg_str(cfg) + " k=" + std::to_string(sk.get_k()) + " n0=" + std::to_string(m.v.size()) +
                                     " multiplier=" + std::to_string(m.mult), 32, r.chance(0.3), light);
    F::template counters<K>(sk, o, true);
    if (!light) {
      if (o.n == (1ULL << 32)) fcount(fam, "huge_obs_n_eq_2p32");
      else if (o.n > (1ULL << 32)) fcount(fam, "huge_obs_n_gt_2p32");
      else if (o.n >= (1ULL << 31)) fcount(fam, "huge_obs_n_just_below_2p32");
      if (o.distinct_weights && (1ULL << 32) <= (o.min_weight << (o.distinct_weights - 1))) fcount(fam, "huge_obs_item_weight_ge_2p32");
    }
    return o;
  };
  obs("updates", r.coin());
  for (unsigned d = 1; d <= doublings; ++d) {
    const bool rvalue = r.coin();
    try {
      SK copy(sk);
      if (rvalue) sk.merge(std::move(copy)); else sk.merge(copy);
    } catch (const std::exception& e) {
      checked();
      fail(fam + "|merge|threw", std::string("merging a sketch with a copy of itself threw: ") + e.what() + " doubling " + std::to_string(d));
      return;
    }
    m.mult <<= 1;
    fcount(fam, "huge_self_copy_merges");
    const bool near = d + 2 >= d_cross;          // n within a factor 4 below 2^32, or beyond
    if (near) obs("doubling", false);
    else if (r.chance(0.2)) obs("doubling", r.chance(0.3));
  }
  (void) idx;
}

// ------------------------------------------------------------------------------- type-converting construction
// A float sketch (any state, with emphasis on estimation-mode sources that have an empty intermediate level) is
// converted to a double sketch through the type-converting constructor.  float -> double is exact and preserves order
// and equivalence, so the converted sketch is observed against the source's model mapped through the conversion, and
// then carries on with updates (several times the exact capacity, so every level gets carried into) and merges in
// both directions under all clauses.
template<typename F>
void run_case_convert(uint64_t idx, Rng& r) {
  typedef typename F::template SK<float> SKF;
  typedef typename F::template SK<double> SKD;
  const std::string fam = F::name();
  const uint32_t s1 = static_cast<uint32_t>(r.next()), s2 = static_cast<uint32_t>(r.next());
  datasketches::random_utils::rand.seed(s1);
  datasketches::random_utils::random_bit.seed(s2);
  const typename F::Cfg cfg = F::cfg(r);
  const uint32_t k = F::pick_k(r, false);
  const uint64_t cap = F::exact_cap(k);
  // source length: empty / exact / estimating over 1..16 exact capacities, so that every level pattern occurs
  const uint64_t cls = r.below(100);
  const uint64_t n0 = cls < 5 ? 0 : (cls < 20 ? 1 + r.below(cap) : cap + 1 + r.below(16 * (cap + 1)));
  const int shape = static_cast<int>(r.below(S_NSHAPES));
  const double p_special = r.chance(0.3) ? 0.03 : 0.0;
  describe(fam + " CONVERT float->double " + F::cfg_str(cfg) + " k=" + std::to_string(k) + " n0=" + std::to_string(n0) + " shape=" + shape_name(shape) +
           " p_special=" + str(p_special) + " coin_seeds=" + std::to_string(s1) + "," + std::to_string(s2));
  fcount(fam, "convert_cases");
  uint32_t serial = 0;
  SKF src(F::template make<float>(k, cfg, std::less<float>()));
  Model<float> ms;
  if (!feed<F, float>(src, ms, gen_stream<float>(r, n0, shape, 0, p_special, serial), r)) return;
  const bool queried = r.coin();            // half of the sources are converted without ever having been queried
  {
    const Observed o = observe<F, float>(src, ms, r, "before conversion " + F::cfg_str(cfg) + " k=" + std::to_string(k), 24, r.chance(0.3), !queried);
    F::template counters<float>(src, o, false);
  }
  ms.prep();
  const bool gap = F::convert_gap(src.get_k(), src.get_n());
  fcount(fam, std::string("convert_from_") + mode_name(src.is_empty(), src.is_estimation_mode()));
  if (gap) fcount(fam, "convert_from_source_with_empty_intermediate_level");

  std::unique_ptr<SKD> dst;
  try { dst.reset(new SKD(src)); }
  catch (const std::exception& e) { checked(); fail(fam + "|convert|threw", std::string("type-converting construction from a valid sketch threw: ") + e.what()); return; }
  Model<double> md;
  for (float x: ms.v) md.add(static_cast<double>(x));
  auto obs = [&](SKD& sk, Model<double>& m, const char* after, bool light) {
    const Observed o = observe<F, double>(sk, m, r, std::string("after ") + after + " (float->double conversion) " + F::cfg_str(cfg) + " k=" + std::to_string(sk.get_k()) + " source_n=" + std::to_string(ms.v.size()),
                                          32, r.chance(0.3), light);
    F::template counters<double>(sk, o, true);
    return o;
  };
  obs(*dst, md, "conversion", r.chance(0.3));
  { const Observed o = observe<F, float>(src, ms, r, "being conversion source " + F::cfg_str(cfg) + " k=" + std::to_string(k), 12, false, false); (void) o; }

  // updates on the converted sketch: at least two exact capacities in total, so the base buffer / level 0 fills and
  // carries propagate through every level that was empty at conversion time
  const unsigned batches = 1 + static_cast<unsigned>(r.below(3));
  uint64_t added = 0;
  for (unsigned b = 0; b < batches || added < 2 * (cap + 1); ++b) {
    const uint64_t nb = 1 + r.below(2 * (cap + 1) + 8);
    if (!feed<F, double>(*dst, md, gen_stream<double>(r, nb, static_cast<int>(r.below(S_NSHAPES)), static_cast<int64_t>(r.below(64)), p_special, serial), r)) return;
    added += nb;
    obs(*dst, md, "updates on the converted sketch", r.chance(0.4));
  }
  fcount(fam, "convert_then_updates_ge_2_capacities");
  if (gap) fcount(fam, "convert_gap_then_updates_ge_2_capacities");

  // merges from and into the converted sketch
  SKD other(F::template make<double>(r.coin() ? k : F::pick_k(r, false), cfg, std::less<double>()));
  Model<double> mo;
  if (!feed<F, double>(other, mo, gen_stream<double>(r, r.below(6 * (cap + 1)), static_cast<int>(r.below(S_NSHAPES)), static_cast<int64_t>(r.below(64)), p_special, serial), r)) return;
  try {
    if (r.coin()) {
      SKD fresh(src);                       // a second, never-updated conversion is merged into a native sketch
      Model<double> mf; for (float x: ms.v) mf.add(static_cast<double>(x));
      if (r.coin()) other.merge(fresh); else other.merge(std::move(fresh));
      mo.absorb(mf);
      obs(other, mo, "merge from a freshly converted sketch", false);
      fcount(fam, "convert_merged_from_fresh");
    }
    if (r.coin()) { dst->merge(other); md.absorb(mo); obs(*dst, md, "merge into the converted sketch", false); fcount(fam, "convert_merged_into"); }
    else { other.merge(*dst); mo.absorb(md); obs(other, mo, "merge from the converted sketch", false); fcount(fam, "convert_merged_from"); }
  } catch (const std::exception& e) { checked(); fail(fam + "|merge|threw", std::string("merge involving a converted sketch threw: ") + e.what()); return; }
  (void) idx;
}

// ------------------------------------------------------------------------------- largest-k case
// A handful of cases per run use the largest configurable k of the family (classic 32768 / 16384, KLL 65535 / 40000,
// REQ 1024 / 512) with a float stream of more than three exact capacities, observed around the point where the first
// compaction must happen, plus a merge of two exact sketches whose union crosses that point.
template<typename F>
void run_case_largek(uint64_t idx, Rng& r, bool force_max) {
  typedef typename F::template SK<float> SK;
  const std::string fam = F::name();
  const uint32_t s1 = static_cast<uint32_t>(r.next()), s2 = static_cast<uint32_t>(r.next());
  datasketches::random_utils::rand.seed(s1);
  datasketches::random_utils::random_bit.seed(s2);
  const typename F::Cfg cfg = F::cfg(r);
  const bool kmax_draw = r.chance(0.7);
  const bool kmax = force_max || kmax_draw;   // every other large-k case is at the maximum by construction: the coverage floor must not depend on the seed
  const uint32_t k = F::large_k(kmax);
  const uint64_t cap = F::exact_cap(k);
  const uint64_t total = 3 * (cap + 1) + r.below(cap / 8 + 100);
  const int shape = r.chance(0.5) ? S_RANDOM : static_cast<int>(r.below(S_NSHAPES));
  describe(fam + " LARGE-K type=float " + F::cfg_str(cfg) + " k=" + std::to_string(k) + " n=" + std::to_string(total) + " shape=" + shape_name(shape) +
           " coin_seeds=" + std::to_string(s1) + "," + std::to_string(s2));
  fcount(fam, "largek_cases");
  if (kmax) fcount(fam, "largek_cases_at_max_k");
  uint32_t serial = 0;
  const std::vector<float> all = gen_stream<float>(r, total, shape, 0, 0.001, serial);
  SK sk(F::template make<float>(k, cfg, std::less<float>()));
  Model<float> m;
  auto obs = [&](SK& s, Model<float>& mm, const char* after, bool light) {
    const Observed o = observe<F, float>(s, mm, r, std::string("after ") + after + " " + F::cfg_str(cfg) + " k=" + std::to_string(s.get_k()), 16, r.chance(0.3), light);
    F::template counters<float>(s, o, false);
    return o;
  };
  // pieces: up to one below the exact capacity, then single updates across it, then the rest in two chunks
  const uint64_t cuts[] = {cap - 1, cap, cap + 1, cap + 2, cap + 3, (cap + 3 + total) / 2, total};
  const bool lightv[] = {true, false, false, false, true, true, false};
  uint64_t at = 0;
  for (unsigned c = 0; c < 7; ++c) {
    const std::vector<float> piece(all.begin() + static_cast<std::ptrdiff_t>(at), all.begin() + static_cast<std::ptrdiff_t>(cuts[c]));
    at = cuts[c];
    if (!feed<F, float>(sk, m, piece, r)) return;
    obs(sk, m, "large-k updates", lightv[c]);
  }
  fcount(fam, "largek_n_ge_3_exact_capacities");
  // two exact sketches whose union exceeds the exact capacity: the merge itself must trigger the compaction
  SK a(F::template make<float>(k, cfg, std::less<float>())), b(F::template make<float>(k, cfg, std::less<float>()));
  Model<float> ma, mb;
  const uint64_t na = (cap + 1) * 6 / 10 + r.below(100), nb = (cap + 1) / 2 + r.below(100);
  if (!feed<F, float>(a, ma, gen_stream<float>(r, na, static_cast<int>(r.below(S_NSHAPES)), 0, 0.0, serial), r)) return;
  if (!feed<F, float>(b, mb, gen_stream<float>(r, nb, static_cast<int>(r.below(S_NSHAPES)), static_cast<int64_t>(na / 2), 0.0, serial), r)) return;
  try {
    if (r.coin()) a.merge(b); else a.merge(std::move(b));
    ma.absorb(mb);
    obs(a, ma, "merge of two exact large-k sketches crossing the exact capacity", false);
    fcount(fam, "largek_merge_crossing_exact_capacity");
    sk.merge(a);
    m.absorb(ma);
    obs(sk, m, "large-k estimating merged with large-k sketch", false);
  } catch (const std::exception& e) { checked(); fail(fam + "|merge|threw", std::string("large-k merge threw: ") + e.what()); return; }
  (void) idx;
}

template<typename F, typename K>
void run_one(uint64_t idx, Rng& r, uint64_t ntypes) {
  const uint64_t slot = (idx / ntypes) % 20;
  if (std::is_same<K, float>::value && (idx / ntypes) % 400 == 9) {
    if constexpr (std::is_same<K, float>::value) run_case_largek<F>(idx, r, ((idx / ntypes) / 400) % 2 == 0);
  }
  else if (slot == 7) run_case_huge<F, K>(idx, r);
  else if (slot == 3 || slot == 13) {
    if constexpr (std::is_same<K, float>::value) run_case_convert<F>(idx, r); else run_case_t<F, K>(idx, r);
  }
  else run_case_t<F, K>(idx, r);
}

// Kinds of this translation unit: -DVF_C07_TYPESET=0 arithmetic (float, double, int64), =1 objects (std::string with
// custom comparator, Item), =2 stateful comparators (DirDouble, DirString), unset = all seven.  Compile time is the
// only reason to split.
#ifndef VF_C07_TYPESET
#define VF_C07_TYPESET 3
#endif
inline uint64_t num_types() { return VF_C07_TYPESET == 0 ? 3 : (VF_C07_TYPESET == 1 ? 2 : (VF_C07_TYPESET == 2 ? 2 : 7)); }
inline uint64_t cases_per_type(bool thorough) { return VF_C07_TYPESET == 2 ? (thorough ? 8000 : 1000) : (thorough ? 15000 : 1600); }

template<typename F>
void run_case_any(uint64_t idx, Rng& r) {
  const uint64_t nt = num_types();
#if VF_C07_TYPESET == 0
  switch (idx % 3) {
    case 0: run_one<F, float>(idx, r, nt); break;
    case 1: run_one<F, double>(idx, r, nt); break;
    default: run_one<F, int64_t>(idx, r, nt); break;
  }
#elif VF_C07_TYPESET == 1
  switch (idx % 2) {
    case 0: run_one<F, std::string>(idx, r, nt); break;
    default: run_one<F, Item>(idx, r, nt); break;
  }
#elif VF_C07_TYPESET == 2
  switch (idx % 2) {
    case 0: run_one<F, DirDouble>(idx, r, nt); break;
    default: run_one<F, DirString>(idx, r, nt); break;
  }
#else
  switch (idx % 7) {
    case 0: run_one<F, float>(idx, r, nt); break;
    case 1: run_one<F, double>(idx, r, nt); break;
    case 2: run_one<F, int64_t>(idx, r, nt); break;
    case 3: run_one<F, std::string>(idx, r, nt); break;
    case 4: run_one<F, Item>(idx, r, nt); break;
    case 5: run_one<F, DirDouble>(idx, r, nt); break;
    default: run_one<F, DirString>(idx, r, nt); break;
  }
#endif
}

} } // namespace vf::c07

#endif
