// Shared by the C03 (HLL content) and C04 (HLL union) monitors:
//   * independent coupon model: reference MurmurHash3 (seed 9001) of the canonicalised input ->
//     coupon = (min(clz(h2), 62) + 1) << 26 | (h1 & (2^26 - 1)); slot(lg_k) = low lg_k bits of the low 26 bits;
//     value = coupon >> 26  (written from the description, not taken from HllUtil.hpp)
//   * independent decoder of the *updatable* HLL image (layout as documented in HllUtil.hpp constants and
//     the comments of HllSketchImpl/HllArray/Hll4Array/Hll6Array/AuxHashMap): list, set, HLL_4/6/8 arrays
//     including the HLL_4 cur-min offset and the auxiliary exception table
//   * helpers to read a sketch's logical content through the public API only and to diff it with the model
#ifndef VF_C03_HLL_MODEL_HPP
#define VF_C03_HLL_MODEL_HPP

#include "core.hpp"
#include "gen.hpp"
#include "refhash.hpp"
#include <hll.hpp>
#include <unordered_set>
#include <unordered_map>
#include <memory>

namespace vf {
namespace hllm {

static const uint64_t HLL_HASH_SEED = 9001;   // documented default seed of the library
static const uint32_t ADDR26_MASK = (1u << 26) - 1;

// ---------------------------------------------------------------- coupon model
inline unsigned clz64_ref(uint64_t x) {
  if (x == 0) return 64;
  unsigned n = 0;
  while ((x & 0x8000000000000000ULL) == 0) { x <<= 1; ++n; }
  return n;
}
inline uint32_t coupon_of_hash(const H128& h) {
  unsigned lz = clz64_ref(h.h2);
  if (lz > 62) lz = 62;
  return (static_cast<uint32_t>(lz + 1) << 26) | static_cast<uint32_t>(h.h1 & ADDR26_MASK);
}
inline uint32_t coupon_of(const Val& v) { return coupon_of_hash(v.ref_hash(HLL_HASH_SEED)); }
inline uint32_t cp_value(uint32_t c) { return c >> 26; }
inline uint32_t cp_slot(uint32_t c, unsigned lg_k) { return (c & ADDR26_MASK) & ((1u << lg_k) - 1u); }

// fold coupons into a register array of 2^lg_k slots (per-slot maximum)
inline void fold_into(std::vector<uint8_t>& regs, unsigned lg_k, const std::vector<uint32_t>& coupons) {
  for (uint32_t c : coupons) {
    uint8_t& r = regs[cp_slot(c, lg_k)];
    const uint8_t v = static_cast<uint8_t>(cp_value(c));
    if (v > r) r = v;
  }
}
inline std::vector<uint32_t> sorted_distinct(std::vector<uint32_t> v) {
  std::sort(v.begin(), v.end());
  v.erase(std::unique(v.begin(), v.end()), v.end());
  return v;
}

// ---------------------------------------------------------------- image decoder
enum { M_LIST = 0, M_SET = 1, M_HLL = 2 };
struct Decoded {
  std::string err;            // non-empty: image structurally inconsistent
  int mode = -1;              // M_LIST / M_SET / M_HLL
  int type = -1;              // 0 = HLL_4, 1 = HLL_6, 2 = HLL_8
  unsigned lg_k = 0;
  bool empty_flag = false, ooo_flag = false, full_flag = false;
  // list / set
  uint32_t stored_count = 0;
  std::vector<uint32_t> coupons;      // sorted ascending (non-zero array cells)
  bool duplicate_coupon = false;
  // hll
  unsigned cur_min = 0;
  uint32_t num_at_cur_min = 0, aux_count = 0;
  double hip = 0, kxq0 = 0, kxq1 = 0;
  std::vector<uint8_t> regs;          // 2^lg_k decoded register values
  std::vector<uint32_t> aux_slots;    // sorted slots currently held as exceptions (HLL_4)
  bool coupon_mode() const { return mode == M_LIST || mode == M_SET; }
};

inline uint32_t rd_u32(const uint8_t* p) { return rd32le(p); }
inline double rd_f64(const uint8_t* p) { uint64_t u = rd64le(p); double d; memcpy(&d, &u, 8); return d; }

inline Decoded decode_updatable(const uint8_t* p, size_t n) {
  Decoded d;
  if (n < 8) { d.err = "image shorter than the 8-byte preamble"; return d; }
  const unsigned pre_ints = p[0];
  if (p[1] != 1) { d.err = "serial version != 1"; return d; }
  if (p[2] != 7) { d.err = "family id != 7"; return d; }
  d.lg_k = p[3];
  const unsigned lg_arr = p[4];
  const unsigned flags = p[5];
  d.empty_flag = (flags & 4) != 0;
  if (flags & 8) { d.err = "compact flag set in an updatable image"; return d; }
  d.ooo_flag = (flags & 16) != 0;
  d.full_flag = (flags & 32) != 0;
  const unsigned mb = p[7];
  d.mode = static_cast<int>(mb & 3);
  d.type = static_cast<int>((mb >> 2) & 3);
  if (d.mode == 3 || d.type == 3) { d.err = "invalid mode byte"; return d; }
  if (d.lg_k < 4 || d.lg_k > 21) { d.err = "lg_k out of range in image"; return d; }
  const size_t k = size_t(1) << d.lg_k;
  if (d.mode == M_LIST || d.mode == M_SET) {
    const size_t start = d.mode == M_LIST ? 8 : 12;
    if (pre_ints != (d.mode == M_LIST ? 2u : 3u)) { d.err = "preamble ints do not match coupon mode"; return d; }
    if (lg_arr > 26) { d.err = "absurd lg array size"; return d; }
    const size_t cells = size_t(1) << lg_arr;
    if (n != start + 4 * cells) { d.err = "coupon image length " + std::to_string(n) + " != " + std::to_string(start + 4 * cells); return d; }
    d.stored_count = d.mode == M_LIST ? p[6] : rd_u32(p + 8);
    for (size_t i = 0; i < cells; ++i) {
      const uint32_t c = rd_u32(p + start + 4 * i);
      if (c != 0) d.coupons.push_back(c);
    }
    std::sort(d.coupons.begin(), d.coupons.end());
    d.duplicate_coupon = std::adjacent_find(d.coupons.begin(), d.coupons.end()) != d.coupons.end();
    return d;
  }
  // HLL mode
  if (pre_ints != 10) { d.err = "preamble ints != 10 in HLL mode"; return d; }
  if (n < 40) { d.err = "HLL image shorter than 40-byte preamble"; return d; }
  d.cur_min = p[6];
  d.hip = rd_f64(p + 8); d.kxq0 = rd_f64(p + 16); d.kxq1 = rd_f64(p + 24);
  d.num_at_cur_min = rd_u32(p + 32);
  d.aux_count = rd_u32(p + 36);
  d.regs.assign(k, 0);
  const uint8_t* a = p + 40;
  if (d.type == 2) {
    if (n != 40 + k) { d.err = "HLL_8 image length " + std::to_string(n) + " != " + std::to_string(40 + k); return d; }
    for (size_t i = 0; i < k; ++i) d.regs[i] = a[i];   // 8-bit cells hold the value itself (cur_min is not an offset here)
    return d;
  }
  if (d.type == 1) {
    const size_t bytes = (k * 3) / 4 + 1;
    if (n != 40 + bytes) { d.err = "HLL_6 image length " + std::to_string(n) + " != " + std::to_string(40 + bytes); return d; }
    for (size_t i = 0; i < k; ++i) {
      const size_t bit = i * 6, b = bit >> 3, sh = bit & 7;
      const unsigned two = static_cast<unsigned>(a[b]) | (static_cast<unsigned>(a[b + 1]) << 8);
      d.regs[i] = static_cast<uint8_t>((two >> sh) & 63u);   // 6-bit cells hold the value itself
    }
    return d;
  }
  // HLL_4: nibbles (even slot = low nibble) hold value - cur_min, 15 = look in the exception table that follows
  const size_t nib_bytes = k / 2;
  if (n < 40 + nib_bytes) { d.err = "HLL_4 image shorter than its nibble array"; return d; }
  const size_t aux_bytes = n - 40 - nib_bytes;
  if (aux_bytes % 4 != 0) { d.err = "HLL_4 aux area not a multiple of 4 bytes"; return d; }
  if (d.aux_count > 0 && aux_bytes != (size_t(4) << lg_arr)) { d.err = "HLL_4 aux area size does not match lg_arr byte"; return d; }
  std::unordered_map<uint32_t, uint8_t> aux;
  for (size_t i = 0; i < aux_bytes / 4; ++i) {
    const uint32_t e = rd_u32(a + nib_bytes + 4 * i);
    if (e == 0) continue;
    const uint32_t slot = (e & ADDR26_MASK) & static_cast<uint32_t>(k - 1);
    if (!aux.emplace(slot, static_cast<uint8_t>(e >> 26)).second) { d.err = "HLL_4 aux table holds a slot twice"; return d; }
    d.aux_slots.push_back(slot);
  }
  std::sort(d.aux_slots.begin(), d.aux_slots.end());
  if (aux.size() != d.aux_count) { d.err = "HLL_4 aux count field " + std::to_string(d.aux_count) + " != entries " + std::to_string(aux.size()); return d; }
  size_t tokens = 0;
  for (size_t i = 0; i < k; ++i) {
    const unsigned byte = a[i >> 1];
    const unsigned nib = (i & 1) ? (byte >> 4) : (byte & 15u);
    if (nib == 15) {
      ++tokens;
      auto it = aux.find(static_cast<uint32_t>(i));
      if (it == aux.end()) { d.err = "HLL_4 exception token in slot " + std::to_string(i) + " without aux entry"; return d; }
      d.regs[i] = it->second;
    } else {
      d.regs[i] = static_cast<uint8_t>(nib + d.cur_min);
    }
  }
  if (tokens != aux.size()) d.err = "HLL_4 aux entries " + std::to_string(aux.size()) + " != exception tokens " + std::to_string(tokens);
  return d;
}

// ---------------------------------------------------------------- reading a sketch (public API only)
inline Decoded read_native(const datasketches::hll_sketch& s) {
  auto b = s.serialize_updatable();
  return decode_updatable(b.data(), b.size());
}
inline Decoded read_as_hll8(const datasketches::hll_sketch& s) {
  datasketches::hll_sketch c(s, datasketches::HLL_8);
  auto b = c.serialize_updatable();
  return decode_updatable(b.data(), b.size());
}
inline const char* type_name(int t) { static const char* n[] = {"hll4", "hll6", "hll8", "?"}; return n[(t < 0 || t > 2) ? 3 : t]; }
inline const char* mode_name(int m) { static const char* n[] = {"list", "set", "hll", "?"}; return n[(m < 0 || m > 2) ? 3 : m]; }
inline datasketches::target_hll_type tgt(int t) {
  return t == 0 ? datasketches::HLL_4 : (t == 1 ? datasketches::HLL_6 : datasketches::HLL_8);
}

// ---------------------------------------------------------------- diffs
struct Diff {
  bool lost = false;    // something the model holds is missing / lower in the sketch
  bool extra = false;   // the sketch holds something never offered / higher than the model
  std::string detail;
  bool ok() const { return !lost && !extra; }
};
inline Diff diff_registers(const std::vector<uint8_t>& got, const std::vector<uint8_t>& want) {
  Diff d;
  if (got.size() != want.size()) { d.lost = true; d.detail = "register count " + std::to_string(got.size()) + " vs model " + std::to_string(want.size()); return d; }
  size_t nlow = 0, nhigh = 0, first_low = 0, first_high = 0;
  for (size_t i = 0; i < got.size(); ++i) {
    if (got[i] < want[i]) { if (!nlow) first_low = i; ++nlow; }
    else if (got[i] > want[i]) { if (!nhigh) first_high = i; ++nhigh; }
  }
  d.lost = nlow > 0; d.extra = nhigh > 0;
  if (nlow) d.detail += " slots-below-model=" + std::to_string(nlow) + " first: slot " + std::to_string(first_low) + " holds " +
    std::to_string(got[first_low]) + " model " + std::to_string(want[first_low]);
  if (nhigh) d.detail += " slots-above-model=" + std::to_string(nhigh) + " first: slot " + std::to_string(first_high) + " holds " +
    std::to_string(got[first_high]) + " model " + std::to_string(want[first_high]);
  return d;
}
inline Diff diff_coupons(const std::vector<uint32_t>& got_sorted, const std::vector<uint32_t>& want_sorted) {
  Diff d;
  if (got_sorted == want_sorted) return d;
  std::vector<uint32_t> missing, extra;
  std::set_difference(want_sorted.begin(), want_sorted.end(), got_sorted.begin(), got_sorted.end(), std::back_inserter(missing));
  std::set_difference(got_sorted.begin(), got_sorted.end(), want_sorted.begin(), want_sorted.end(), std::back_inserter(extra));
  d.lost = !missing.empty(); d.extra = !extra.empty();
  d.detail = " sketch-coupons=" + std::to_string(got_sorted.size()) + " model-coupons=" + std::to_string(want_sorted.size());
  if (d.lost) d.detail += " missing=" + std::to_string(missing.size()) + " first-missing=" + std::to_string(missing[0]);
  if (d.extra) d.detail += " extra=" + std::to_string(extra.size()) + " first-extra=" + std::to_string(extra[0]);
  if (!d.lost && !d.extra) { d.extra = true; d.detail += " (same set, different multiplicity)"; }
  return d;
}

// ---------------------------------------------------------------- inputs whose coupons share the full 26-bit address
// Birthday search over the reference hash (once per process): pairs of u64 keys with the same low 26 bits of h1 but
// different coupon values.  In coupon (LIST/SET) mode both coupons are distinct members of the set; in HLL mode the
// slot keeps the larger value.  Random streams practically never contain such a pair (2^-26 per pair of inputs).
struct AddrPair { uint64_t x_hi, x_lo; uint32_t c_hi, c_lo; };   // c_hi has the larger value
inline const std::vector<AddrPair>& same_address_pairs() {
  static std::vector<AddrPair> pairs;
  static bool built = false;
  if (!built) {
    built = true;
    std::unordered_map<uint32_t, std::pair<uint64_t, uint32_t>> seen;   // address -> (key, coupon)
    seen.reserve(1u << 17);
    for (uint64_t i = 0; i < 98304 && pairs.size() < 24; ++i) {
      const uint64_t x = i * 0x9e3779b97f4a7c15ULL + 777;
      const uint32_t c = coupon_of_hash(ref_hash_u64(x, HLL_HASH_SEED));
      auto ins = seen.emplace(c & ADDR26_MASK, std::make_pair(x, c));
      if (ins.second) continue;
      const uint32_t c0 = ins.first->second.second;
      if (c0 == c) continue;                                          // same value too: an ordinary duplicate coupon
      if (cp_value(c) > cp_value(c0)) pairs.push_back(AddrPair{x, ins.first->second.first, c, c0});
      else pairs.push_back(AddrPair{ins.first->second.first, x, c0, c});
    }
  }
  return pairs;
}

// ---------------------------------------------------------------- inputs that put a chosen slot at a chosen exact value
// (selected with the reference hash, once per process): key[s][v] = u64 inputs whose coupon has value v (1..4) and whose
// address ends in the 7 bits s.  Lets a stream put EVERY slot of a small sketch (lg_k 4..7) at exactly one value, the
// state in which an HLL_4 array has cur_min = v and all slots "at cur_min".
struct LevelPool { std::vector<uint64_t> key[128][5]; };
inline const LevelPool& level_pool() {
  static LevelPool lp;
  static bool built = false;
  if (!built) {
    built = true;
    size_t filled = 0;
    for (uint64_t i = 0; i < 400000 && filled < 128 * 4; ++i) {
      const uint64_t x = i * 0x9e3779b97f4a7c15ULL + 4242;
      const uint32_t c = coupon_of_hash(ref_hash_u64(x, HLL_HASH_SEED));
      const uint32_t v = cp_value(c);
      if (v > 4) continue;
      auto& b = lp.key[c & 127u][v];
      if (b.size() >= 3) continue;
      b.push_back(x);
      if (b.size() == 3) ++filled;
    }
  }
  return lp;
}
// a u64 input landing in slot `slot` of a 2^lg_k array (lg_k <= 7) with coupon value v (1..4); 0 if the pool has none
inline bool level_key(Rng& r, unsigned lg_k, uint32_t slot, unsigned v, uint64_t* out) {
  const LevelPool& lp = level_pool();
  const uint32_t s7 = slot | (static_cast<uint32_t>(r.below(1u << (7 - lg_k))) << lg_k);
  const auto& b = lp.key[s7][v];
  if (b.empty()) return false;
  *out = b[r.below(b.size())];
  return true;
}
// a stream that raises every slot of a 2^lg_k array to exactly 1, then exactly 2, ... exactly `levels`, each level in a
// random slot order, with `extras` additional inputs of a higher value placed at random
inline std::vector<uint64_t> level_stream(Rng& r, unsigned lg_k, unsigned levels, unsigned extras) {
  std::vector<uint64_t> keys;
  const uint32_t k = 1u << lg_k;
  for (unsigned v = 1; v <= levels; ++v) {
    std::vector<uint32_t> slots(k);
    for (uint32_t i = 0; i < k; ++i) slots[i] = i;
    r.shuffle(slots);
    for (uint32_t sl : slots) { uint64_t x; if (level_key(r, lg_k, sl, v, &x)) keys.push_back(x); }
  }
  for (unsigned e = 0; e < extras; ++e) {
    uint64_t x;
    const unsigned v = std::min<unsigned>(4, levels + 1 + static_cast<unsigned>(r.below(2)));
    if (level_key(r, lg_k, static_cast<uint32_t>(r.below(k)), v, &x)) keys.insert(keys.begin() + static_cast<long>(r.below(keys.size() + 1)), x);
  }
  return keys;
}

// ---------------------------------------------------------------- rare inputs with coupon value >= 32
// uint64 items found offline by a 2^33 scan (h2 with >= 31 leading zeros).  Their coupons are recomputed here with the
// reference hash; a key whose value is below 32 is dropped (the monitors count how many survived).  Values >= 32 live
// in kxq1, need the 6th bit of the 6-bit packing and are exceptions in HLL_4 for any realistic cur_min.
struct RareKey { uint64_t x; uint32_t coupon; };
inline const std::vector<RareKey>& rare_keys() {
  static std::vector<RareKey> keys;
  static bool built = false;
  if (!built) {
    built = true;
    static const uint64_t cand[] = {5366044298ULL, 8253553449ULL, 5411159528ULL, 8976502966ULL, 10935192973ULL, 8971523326ULL};
    for (uint64_t x : cand) {
      const uint32_t c = coupon_of_hash(ref_hash_u64(x, HLL_HASH_SEED));
      if (cp_value(c) >= 32) keys.push_back(RareKey{x, c});
    }
  }
  return keys;
}

// ---------------------------------------------------------------- compact image of a coupon-mode sketch
// LIST: 8-byte preamble (count in byte 6) then `count` coupons; SET: 12-byte preamble (count as int at 8) then the coupons
inline Decoded decode_compact(const uint8_t* p, size_t n) {
  Decoded d;
  if (n < 8) { d.err = "compact image shorter than 8 bytes"; return d; }
  if (p[1] != 1 || p[2] != 7) { d.err = "compact image: bad serial version / family"; return d; }
  d.lg_k = p[3];
  if (!(p[5] & 8)) { d.err = "compact flag not set in a compact image"; return d; }
  d.empty_flag = (p[5] & 4) != 0;
  d.mode = static_cast<int>(p[7] & 3); d.type = static_cast<int>((p[7] >> 2) & 3);
  if (d.mode == M_HLL) return d;                       // registers of compact HLL images are not decoded here
  if (d.mode != M_LIST && d.mode != M_SET) { d.err = "compact image: invalid mode"; return d; }
  const size_t start = d.mode == M_LIST ? 8 : 12;
  if (n < start || (n - start) % 4 != 0) { d.err = "compact coupon image has a ragged length " + std::to_string(n); return d; }
  d.stored_count = d.mode == M_LIST ? p[6] : rd_u32(p + 8);
  for (size_t i = 0; i < (n - start) / 4; ++i) d.coupons.push_back(rd_u32(p + start + 4 * i));
  std::sort(d.coupons.begin(), d.coupons.end());
  d.duplicate_coupon = std::adjacent_find(d.coupons.begin(), d.coupons.end()) != d.coupons.end();
  return d;
}

// ---------------------------------------------------------------- "the single sketch that saw the same items" in coupon mode
// In LIST/SET mode the estimate is a deterministic function of the number of distinct coupons held, and the mode of a
// lazily started sketch is a function of (lg_k, number of distinct coupons).  Both are read off plain library sketches
// fed a harness stream whose distinct-coupon count is tracked with the reference hash (public API only; the mode is
// told from get_updatable_serialization_bytes(): 40 = LIST, 40 + 2^lg_k = HLL_8 array, anything else = SET).
struct SingleSketchRef {
  std::unique_ptr<datasketches::hll_sketch> sk;
  std::unordered_set<uint32_t> seen;
  uint64_t next = 0;
  std::vector<double> est;        // est[n] = estimate while holding n distinct coupons (coupon mode only)
  std::vector<int8_t> mode;       // mode[n]
  bool reached_hll = false;
  unsigned lg_k = 0;
  void init(unsigned lgk) {
    lg_k = lgk; sk.reset(new datasketches::hll_sketch(static_cast<uint8_t>(lgk), datasketches::HLL_8, false));
    est.assign(1, sk->get_estimate()); mode.assign(1, M_LIST);
  }
  int cur_mode() const {
    const uint32_t b = sk->get_updatable_serialization_bytes();
    return b == 40 ? M_LIST : (b == 40u + (1u << lg_k) ? M_HLL : M_SET);
  }
  void grow_to(size_t n) {
    while (est.size() <= n && !reached_hll) {
      const uint64_t x = (next++) * 0x9e3779b97f4a7c15ULL + 99;
      const uint32_t c = coupon_of_hash(ref_hash_u64(x, HLL_HASH_SEED));
      sk->update(x);
      if (!seen.insert(c).second) continue;
      const int m = cur_mode();
      mode.push_back(static_cast<int8_t>(m));
      est.push_back(sk->get_estimate());
      if (m == M_HLL) reached_hll = true;
    }
  }
  int mode_for(size_t n) { grow_to(n); return n < mode.size() ? mode[n] : M_HLL; }
  // estimate of a coupon-mode sketch holding n distinct coupons; false if a sketch of this lg_k is no longer in coupon mode
  bool estimate_for(size_t n, double* out) { grow_to(n); if (n >= est.size() || mode[n] == M_HLL) return false; *out = est[n]; return true; }
};
inline SingleSketchRef& single_sketch_ref(unsigned lg_k) {
  static std::unique_ptr<SingleSketchRef> refs[22];
  if (!refs[lg_k]) { refs[lg_k].reset(new SingleSketchRef()); refs[lg_k]->init(lg_k); }
  return *refs[lg_k];
}

// ---------------------------------------------------------------- u64 inputs with coupon value >= 15 (2^22-key scan, once per process)
inline const std::vector<uint64_t>& high_value_keys() {
  static std::vector<uint64_t> keys;
  static bool built = false;
  if (!built) {
    built = true;
    for (uint64_t i = 0; i < (1u << 22); ++i) {
      const uint64_t x = i * 0x9e3779b97f4a7c15ULL + 12345;
      if (cp_value(coupon_of_hash(ref_hash_u64(x, HLL_HASH_SEED))) >= 15) keys.push_back(x);
    }
  }
  return keys;
}

inline bool rel_eq(double a, double b, double tol) {
  if (a == b) return true;
  if (std::isnan(a) || std::isnan(b)) return false;
  return std::fabs(a - b) <= tol * std::max(std::fabs(a), std::fabs(b));
}

} // namespace hllm
} // namespace vf
#endif
