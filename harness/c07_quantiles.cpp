// C07 (classic part) — quantiles_sketch conserves weight, keeps exact extremes and answers coherently over
// random merge trees (standard merge, both down-sampling directions, exact <-> estimating).
// Oracle and case driver: vf/c07_quantiles_oracle.hpp.
#include "vf/core.hpp"
#include "vf/c07_quantiles_oracle.hpp"
#include <quantiles_sketch.hpp>

using namespace datasketches;
namespace vf {

const char* property_id() { return "C07"; }
unsigned case_timeout_s() { return 300; }
uint64_t num_cases(bool thorough) { return c07::cases_per_type(thorough) * c07::num_types(); }   // item types round-robin
void final_report() {}

struct ClassicFam {
  static const char* name() { return "classic"; }
  template<typename K> using SK = quantiles_sketch<typename c07::Tr<K>::T, typename c07::Tr<K>::Cmp>;
  struct Cfg {};
  static Cfg cfg(Rng&) { return Cfg(); }
  static std::string cfg_str(const Cfg&) { return "classic"; }
  static uint32_t pick_k(Rng& r, bool thorough) {
    static const uint32_t ks[] = {2, 2, 4, 4, 8, 8, 16, 16, 32, 64, 128};
    if (thorough && r.chance(0.1)) return r.pick({256u, 512u, 2048u});
    return ks[r.below(sizeof ks / sizeof ks[0])];
  }
  template<typename K> static SK<K> make(uint32_t k, const Cfg&, const typename c07::Tr<K>::Cmp& cmp) { return SK<K>(static_cast<uint16_t>(k), cmp); }
  template<typename K> static SK<K> roundtrip(const SK<K>& sk, const typename c07::Tr<K>::Cmp& cmp, bool stream) {
    typedef typename c07::Tr<K>::T T;
    if (stream) {
      std::stringstream ss(std::ios::in | std::ios::out | std::ios::binary);
      sk.serialize(ss);
      return SK<K>::deserialize(ss, serde<T>(), cmp);
    }
    const auto bytes = sk.serialize();
    return SK<K>::deserialize(bytes.data(), bytes.size(), serde<T>(), cmp);
  }

  static const bool self_merge_ok = true;
  // levels are the bits of n / 2k: an empty intermediate level is a zero bit below the top bit
  static bool convert_gap(uint32_t k, uint64_t n) { const uint64_t bp = n / (2ULL * k); return bp != 0 && (bp & (bp + 1)) != 0; }
  static uint32_t large_k(bool mx) { return mx ? 32768 : 16384; }
  template<typename K> static int level0_unsorted(const SK<K>&) { return -1; }   // not published by quantiles_sketch
  static uint64_t exact_cap(uint32_t k) { return 2ULL * k - 1; }

  // stated: base buffer of n mod 2k items plus one k-item level per set bit of n / 2k
  template<typename T> static void bound(const SK<T>& sk, uint32_t retained, uint64_t n, const std::string& ctx) {
    const uint64_t k = sk.get_k();
    const uint64_t cap = n % (2 * k) + k * c07::popcount64(n / (2 * k));
    VF_CHECK(retained <= cap, "classic|space-bound|retained-above-stated-max", ctx + " k=" + std::to_string(k) + " max_retained=" + std::to_string(cap));
  }
  template<typename T> static void counters(const SK<T>&, const c07::Observed& o, bool after_merge) {
    if (o.empty) return;
    if (o.est && o.min_weight > 1) count(after_merge ? "classic_empty_base_buffer_after_merge" : "classic_empty_base_buffer_after_updates");
    if (o.distinct_weights >= 3) count("classic_three_or_more_levels");
  }
};

void run_case(uint64_t idx, Rng& r) { c07::run_case_any<ClassicFam>(idx, r); }

} // namespace vf
