# Registry of monitors: one JSON fragment per property in harness/reg/<id>.json
#   {level, units:[{name, src, flags?, shards?, wall_quick?, wall_thorough?}], rule, floor / floor_quick / floor_thorough,
#    assumptions, technique, level_text, level_note}
import json, os, glob
_D = os.path.join(os.path.dirname(os.path.abspath(__file__)), "reg")
REGISTRY = {}
for _f in sorted(glob.glob(os.path.join(_D, "C*.json"))):
    with open(_f) as _h:
        REGISTRY[os.path.basename(_f)[:-5]] = json.load(_h)
NOT_APPLICABLE = {}
HOOK_COMMITS = ["c2e274d"]

# Monitors that are finished (silent on the repaired tree over seeds 1..5, sensitivity validated) and
# therefore claimed in MANIFEST.json.  Fragments not listed here are still under construction.
READY = ["C01", "C02", "C03", "C04", "C05", "C06", "C07", "C08", "C09", "C10", "C11", "C12", "C13", "C14", "C15", "C16", "C17", "C18", "C19", "C20"]
