# Registry of monitors: property -> units (translation units), coverage floors, evidence text.
REGISTRY = {
  "C01": {
    "level": "exploration",
    "units": [{"name": "c01_theta_update", "src": "c01_theta_update.cpp"}],
    "rule": ("case = random builder configuration (lg_k, resize factor, p, seed) x random op sequence over 1-3 live "
             "update_theta_sketch objects (typed updates incl. -0.0/NaN/empty string, trim, reset, copy, copy/move assign); "
             "after ops the full read-out is compared with a shadow set of reference MurmurHash3 hashes. "
             "distinct_nontrivial = distinct (theta, retained, lg_k, |seen|) state signatures observed"),
    "floor": {"rebuilt_sketches": 1, "trim_effective": 1, "reset": 1, "copy": 1, "special_double": 1,
              "ignored_empty_string": 1, "nonempty_zero_retained": 1, "exact_estimates": 1,
              "resized_rf1": 1, "resized_rf2": 1, "resized_rf3": 1},
    "technique": "runtime reference-model monitor (shadow hash set) under ASan+UBSan",
    "level_text": "Runtime monitoring: thousands of generated op-sequences per run on the real update_theta_sketch, whole observable state compared with an independent hash-threshold model after every call, inside an ASan+UBSan build. Held on the executions listed in evidence, nothing more.",
    "level_note": "Trusts the harness reference MurmurHash3 (validated by KATs and against the library in setup and C10) and that generated configurations (lg_k 5..17) are representative of lg_k up to 26.",
    "assumptions": ["reference MurmurHash3_x64_128 in harness/vf/refhash.hpp is correct (KATs + cross-check in C10)",
                    "lg_k > 17 is not generated (memory/time); hash value 0 never occurs"],
  },
}

NOT_APPLICABLE = {}
HOOK_COMMITS = ["c2e274d"]
