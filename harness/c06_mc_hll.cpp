// C06 (Monte-Carlo, HLL) — bias, spread and interval coverage of hll_sketch (HLL_4/6/8: HIP estimate and
// composite estimate) and of hll_union results (composite estimate, "unioned" error tables; inputs of the
// union's lg_k, and - family hll_union_mixed_lgk - one input two steps finer than the union).
// One case = one (family, lg_k, cardinality) cell; all its trials run in this case.
#include "vf/core.hpp"
#include "vf/c06_common.hpp"
#include <hll.hpp>
#include <memory>

using namespace datasketches;
namespace vf {
using namespace c06;

const char* property_id() { return "C06"; }
unsigned case_timeout_s() { return 1800; }

// F_RAW + 3*order + relation: union programs mixing raw items fed directly to hll_union::update with sketch operands.
//   order:    0 sketch -> raw,  1 raw -> sketch,  2 sketch -> raw -> sketch
//   relation: 0 operand two steps finer than the union (lg_max_k = lg_k; a first operand is down-sampled and its HIP kept),
//             1 operand lg_k = union lg_max_k = lg_k,  2 operand lg_k coarser than the union (lg_max_k = lg_k + 2)
// odd trials call get_estimate() between the steps, even trials do not.
// hll_reuse / hll_union_reuse: the sketch (type = trial mod 3) resp. the union object is first filled with 4k unrelated keys,
// reset(), then used.
// hll8_large_lgk: HLL_8 sketches of lg_k 16 (thorough also 17) with n = 11k, beyond the last point of the composite interpolation
// table (10k): published errors of 0.3-0.4% make a small relative bias of HIP or composite estimate visible with few trials.
enum Fam { F_HLL4, F_HLL6, F_HLL8, F_HLL_UNION, F_HLL_UNION_MIXED, F_RAW, F_HLL_REUSE = F_RAW + 9, F_HLL_UNION_REUSE, F_HLL8_LARGE,
           F_SETSRC_ALONE, F_SETSRC_AFTER_RAW, F_SETSRC_INTO_HLL_GADGET, F_SETSRC_THEN_RAW, F_ROLLUP, F_DOWN4, F_DOWN6, F_DOWN8, F_CROSSOVER, F_N };
// hll_union_crossover_hires: union results (composite estimator) at n/k = 2.0, 2.3, 2.6, 2.9, 3.2 - where the composite estimator hands
//   over from linear counting to the interpolated HLL estimate - with thousands of trials, additionally under the high-resolution
//   two-sided interval clause (kappa-scaled tolerance 5pp / 1pp / 0.5pp, vf/c06_common.hpp).
// hll{4,6,8}_downsample_large_n: two sources of lg_k 7 (thorough also 8) of one target type with 2^22 keys each (registers 16 and above)
//   are folded into a union of lg_max_k 6: few trials, but an error in reading large registers moves the estimate by far more than the
//   published error.
// hll_union_set_source_*: a source of lg_k 20/21 that is still in SET mode (16k..64k coupons, below its own promotion point) is fed
//   into a union of lg_max_k 12 / 15, whose gadget is promoted to HLL mode during the feed: alone / after 20 raw items (gadget in
//   LIST mode) / into a gadget already in HLL mode through raw items (even trials) or an HLL-mode sketch (odd trials) / followed by
//   raw items.  hll_union_rollup: the result of a finer union (lg_k + 2, out of order, HLL mode) is fed into a union of lg_max_k =
//   lg_k whose gadget is empty / in LIST mode / in SET mode / in HLL mode (trial mod 4); result types rotate.
static const char* FAM_NAME[] = {"hll4", "hll6", "hll8", "hll_union", "hll_union_mixed_lgk",
  "hll_union_sketch_raw_finer", "hll_union_sketch_raw_equal", "hll_union_sketch_raw_coarser",
  "hll_union_raw_sketch_finer", "hll_union_raw_sketch_equal", "hll_union_raw_sketch_coarser",
  "hll_union_sketch_raw_sketch_finer", "hll_union_sketch_raw_sketch_equal", "hll_union_sketch_raw_sketch_coarser", "hll_reuse", "hll_union_reuse", "hll8_large_lgk",
  "hll_union_set_source_alone", "hll_union_set_source_after_raw", "hll_union_set_source_into_hll_gadget", "hll_union_set_source_then_raw", "hll_union_rollup", "hll4_downsample_large_n", "hll6_downsample_large_n", "hll8_downsample_large_n", "hll_union_crossover_hires"};
static const target_hll_type TYPES[] = {HLL_4, HLL_6, HLL_8};

static std::vector<Cell> build_cells(bool thorough) {
  std::vector<Cell> cells;
  struct Cfg { uint8_t lg_k; uint32_t trials; int max_mi; };
  std::vector<Cfg> cfgs;
  if (!thorough) cfgs = {{4, 300, NMULTS - 1}, {6, 300, NMULTS - 1}, {9, 200, NMULTS - 1}, {11, 200, NMULTS - 3}};
  else cfgs = {{4, 3000, NMULTS - 1}, {5, 3000, NMULTS - 1}, {6, 3000, NMULTS - 1}, {7, 3000, NMULTS - 1}, {8, 3000, NMULTS - 1}, {9, 3000, NMULTS - 1},
               {10, 2000, NMULTS - 1}, {11, 1500, NMULTS - 1}, {12, 1000, NMULTS - 1}, {13, 800, NMULTS - 2}, {14, 600, NMULTS - 3}};
  // the nine raw-item union programs run on a thinner grid
  std::vector<Cfg> raw_cfgs;
  if (!thorough) raw_cfgs = {{6, 300, NMULTS - 1}, {10, 200, NMULTS - 3}};
  else raw_cfgs = {{5, 3000, NMULTS - 1}, {8, 3000, NMULTS - 1}, {11, 1500, NMULTS - 1}, {13, 800, NMULTS - 3}};
  static const bool RAW_MULT[NMULTS] = {false, true, false, true, false, true, false, true, true, false, true};   // k/8, k, 3k, 8k, 16k, 64k
  {
    Cell x; x.fam = F_HLL8_LARGE; x.lg_k = 16; x.mi = 8; x.trials = thorough ? 400 : 200; x.n = 11ULL << 16; x.cost = static_cast<double>(x.n) * x.trials; cells.push_back(x);
    if (thorough) { x.lg_k = 17; x.trials = 200; x.n = 11ULL << 17; x.cost = static_cast<double>(x.n) * x.trials; cells.push_back(x); }
  }
  // calibration on the pre-fix tree (8ab3d74): the HIP bias of a gadget promoted during the feed is largest shortly after the
  // promotion point (+1.4% at lg_max_k 15, n = 16384 = 5x the promotion point; +0.3% at n = 65536; invisible at lg_max_k 12)
  for (int f = F_SETSRC_ALONE; f <= F_SETSRC_THEN_RAW; ++f) {
    Cell x; x.fam = f; x.lg_k = 15; x.mi = 0; x.trials = thorough ? 800 : 200; x.n = 16384; x.cost = 1.5 * static_cast<double>(x.n) * x.trials; cells.push_back(x);
    if (f <= F_SETSRC_AFTER_RAW || thorough) { x.lg_k = 17; x.trials = thorough ? 400 : 100; x.n = 49152; x.cost = 1.5 * static_cast<double>(x.n) * x.trials; cells.push_back(x); }
    if (thorough) { x.lg_k = 12; x.trials = 600; x.n = 16384; x.cost = 1.5 * static_cast<double>(x.n) * x.trials; cells.push_back(x); x.lg_k = 15; x.n = 65536; x.cost = 1.5 * static_cast<double>(x.n) * x.trials; cells.push_back(x); }
  }
  for (uint8_t lg : {uint8_t(8), uint8_t(10), uint8_t(12)}) {
    if (lg == 12 && !thorough) continue;
    for (int tenths : {20, 23, 26, 29, 32}) {
      Cell x; x.fam = F_CROSSOVER; x.lg_k = lg; x.mi = 4; x.n = (static_cast<uint64_t>(tenths) << lg) / 10;
      const bool core = tenths == 26 || tenths == 29;
      x.trials = lg == 8 ? 10000 : (lg == 10 ? (core ? 10000 : 2500) : (core ? 6000 : 2000));
      if (thorough && lg < 12) x.trials *= 2;
      x.cost = 1.3 * static_cast<double>(x.n) * x.trials + 6000.0 * x.trials; cells.push_back(x);
    }
  }
  for (int f = F_DOWN4; f <= F_DOWN8; ++f) {
    Cell x; x.fam = f; x.lg_k = 6; x.mi = 0; x.trials = f == F_DOWN6 ? (thorough ? 12 : 4) : (thorough ? 6 : 2); x.n = 1ULL << 23; x.cost = static_cast<double>(x.n) * x.trials; cells.push_back(x);
  }
  for (auto& c : raw_cfgs)
    for (int mi = 0; mi <= c.max_mi; ++mi) {
      if (!RAW_MULT[mi]) continue;
      Cell x; x.fam = F_ROLLUP; x.lg_k = c.lg_k; x.mi = mi; x.trials = c.trials; x.n = cardinality(c.lg_k, mi); x.cost = 1.3 * static_cast<double>(x.n) * x.trials + 6000.0 * x.trials; cells.push_back(x);
    }
  for (int f = 0; f < F_HLL8_LARGE; ++f)
    for (auto& c : (f >= F_RAW ? raw_cfgs : cfgs))
      for (int mi = 0; mi <= c.max_mi; ++mi) {
        if (f >= F_RAW && !RAW_MULT[mi]) continue;
        Cell x; x.fam = f; x.lg_k = c.lg_k; x.mi = mi; x.trials = c.trials; x.n = cardinality(c.lg_k, mi);
        x.cost = static_cast<double>(x.n) * x.trials * (f >= F_HLL_UNION ? 1.3 : 1.0) + 3000.0 * x.trials;
        cells.push_back(x);
      }
  order_cells(cells);
  return cells;
}
static const std::vector<Cell>& cells() { static std::vector<Cell> c = build_cells(G().thorough()); return c; }

uint64_t num_cases(bool thorough) { (void)thorough; return cells().size(); }
void final_report() {}

static const double K26 = 67108864.0;

template<typename S> static Trial observe(const S& s, uint64_t n, const std::string& fam, const std::string& ctx) {
  Trial t;
  t.c = read_chain_c(s);     // estimate, composite estimate and the six bounds in a random order
  check_chain(t.c, fam, ctx);
  t.aux = t.c.comp;
  t.exact_class = s.get_current_mode() != HLL;
  if (t.exact_class) {
    const Window w = small_range_window(n, K26);
    VF_CHECK(w.lo <= t.c.est && t.c.est <= w.hi, fam + "|coupon-mode|estimate-outside-small-range-accuracy",
             ctx + " n=" + std::to_string(n) + " window=[" + str(w.lo) + "," + str(w.hi) + "] " + t.c.to_string());
    VF_CHECK(t.aux == t.c.est, fam + "|coupon-mode|composite-differs-from-estimate", ctx + " composite=" + str(t.aux) + " est=" + str(t.c.est));
  }
  return t;
}

void run_case(uint64_t idx, Rng& r) {
  const Cell& cell = cells()[idx];
  const std::string fam = FAM_NAME[cell.fam];
  const uint64_t n = cell.n;
  const uint64_t base = r.next();
  seed_order(r);
  describe("mc family=" + fam + " lg_k=" + std::to_string(cell.lg_k) + " n=" + std::to_string(n) + " (" + str(static_cast<double>(n) / static_cast<double>(1ULL << cell.lg_k)) + " k) trials=" + std::to_string(cell.trials) + " keybase=" + std::to_string(base));
  std::vector<Trial> tr; tr.reserve(cell.trials);
  bool any_ooo_union = false;   // a union fed only coupon-mode sketches stays in order (HIP valid); otherwise out of order
  for (uint32_t t = 0; t < cell.trials; ++t) {
    const uint64_t kb = base + (static_cast<uint64_t>(t) << 32);
    const std::string ctx = "trial=" + std::to_string(t);
    auto key = [&](uint64_t i) { return bij(kb + i); };
    if (cell.fam < F_HLL_UNION || cell.fam == F_HLL8_LARGE) {
      hll_sketch s(cell.lg_k, cell.fam == F_HLL8_LARGE ? HLL_8 : TYPES[cell.fam]);
      for (uint64_t i = 0; i < n; ++i) s.update(key(i));
      tr.push_back(observe(s, n, fam, ctx));
    } else if (cell.fam >= F_SETSRC_ALONE && cell.fam <= F_SETSRC_THEN_RAW) {
      const uint8_t src_lg = static_cast<uint8_t>(20 + (t & 1));
      hll_union u(cell.lg_k);
      auto raw = [&](uint64_t from, uint64_t to) { for (uint64_t i = from; i < to; ++i) u.update(key(i)); };
      auto set_source = [&](uint64_t from, uint64_t to) {
        hll_sketch sk(src_lg, TYPES[t % 3]);
        for (uint64_t i = from; i < to; ++i) sk.update(key(i));
        VF_CHECK(sk.get_current_mode() == SET, "harness|set-source-not-in-set-mode", ctx + " coupons offered=" + std::to_string(to - from));
        if (t & 2) u.update(std::move(sk)); else u.update(sk);
      };
      switch (cell.fam) {
        case F_SETSRC_ALONE: set_source(0, n); break;
        case F_SETSRC_AFTER_RAW: raw(0, 20); set_source(10, n); break;
        case F_SETSRC_INTO_HLL_GADGET:
          if (t & 1) { hll_sketch h(cell.lg_k, TYPES[(t / 2) % 3]); for (uint64_t i = 0; i < n / 4; ++i) h.update(key(i)); u.update(h); } else raw(0, n / 4);
          set_source(n / 5, n); break;
        default: set_source(0, n - n / 5); raw(n - n * 3 / 10, n); break;
      }
      tr.push_back(observe(u, n, fam, ctx));
      const hll_sketch res = u.get_result(TYPES[(t / 4) % 3]);
      const Chain rc = read_chain_c(res);
      VF_CHECK(rc.unstable.empty() && same_chain(rc, tr.back().c), fam + "|union-object-vs-result|estimate-or-bounds-differ", ctx + " union: " + tr.back().c.to_string() + " result: " + rc.to_string());
      if (u.get_current_mode() == HLL) { count("mc_set_source_gadget_promoted_trials"); if (u.is_out_of_order_flag()) any_ooo_union = true; }
    } else if (cell.fam >= F_DOWN4 && cell.fam <= F_DOWN8) {
      const uint8_t src_lg = static_cast<uint8_t>(7 + (G().thorough() && (t & 1) ? 1 : 0));
      const target_hll_type ty = TYPES[cell.fam - F_DOWN4];
      hll_union u(cell.lg_k);
      uint32_t big_registers = 0;
      for (int half = 0; half < 2; ++half) {
        hll_sketch sk(src_lg, ty);
        for (uint64_t i = half * (n / 2); i < (half + 1) * (n / 2); ++i) sk.update(key(i));
        if (half == 0) { const hll_sketch as8(sk, HLL_8); const auto img = as8.serialize_updatable(); for (size_t j = 40; j < img.size() && j < 40 + (1u << src_lg); ++j) if (img[j] >= 16) ++big_registers; }
        u.update(sk);
      }
      count("mc_downsample_source_registers_16_and_above", big_registers);
      tr.push_back(observe(u, n, fam, ctx));
      const hll_sketch res = u.get_result(TYPES[t % 3]);
      const Chain rc = read_chain_c(res);
      VF_CHECK(rc.unstable.empty() && same_chain(rc, tr.back().c), fam + "|union-object-vs-result|estimate-or-bounds-differ", ctx + " union: " + tr.back().c.to_string() + " result: " + rc.to_string());
      if (u.get_current_mode() == HLL && u.is_out_of_order_flag()) any_ooo_union = true;
    } else if (cell.fam == F_ROLLUP) {
      const uint64_t a_end = n - n * 2 / 5, b_begin = n * 2 / 5;
      const uint8_t fine_lg = static_cast<uint8_t>(cell.lg_k + 2);
      hll_sketch a(fine_lg, TYPES[t % 3]), b(fine_lg, TYPES[(t / 3) % 3]);
      for (uint64_t i = 0; i < a_end; ++i) a.update(key(i));
      for (uint64_t i = b_begin; i < n; ++i) b.update(key(i));
      hll_union fine(fine_lg);
      fine.update(a); fine.update(b);
      hll_sketch mid = fine.get_result(TYPES[(t / 2) % 3]);      // out of order when in HLL mode
      hll_union u(cell.lg_k);
      switch (t & 3) {                                             // state of the receiving gadget
        case 0: break;                                                                                          // empty
        case 1: for (uint64_t i = 0; i < std::min<uint64_t>(5, n); ++i) u.update(key(i)); break;               // LIST
        case 2: for (uint64_t i = 0; i < std::min<uint64_t>(n, 8 + (3ULL << cell.lg_k) / 64); ++i) u.update(key(i)); break;   // SET (if lg_k >= 8)
        default: { hll_sketch h(cell.lg_k, TYPES[t % 3]); for (uint64_t i = 0; i < n / 3; ++i) h.update(key(i)); u.update(h); }   // HLL (or coupons for small n)
      }
      if (mid.get_current_mode() == HLL && mid.is_out_of_order_flag()) count(std::string("mc_rollup_ooo_operand_into_gadget_state") + std::to_string(t & 3));
      if (t & 4) u.update(std::move(mid)); else u.update(mid);
      tr.push_back(observe(u, n, fam, ctx));
      const hll_sketch res = u.get_result(TYPES[(t / 4) % 3]);
      const Chain rc = read_chain_c(res);
      VF_CHECK(rc.unstable.empty() && same_chain(rc, tr.back().c), fam + "|union-object-vs-result|estimate-or-bounds-differ", ctx + " union: " + tr.back().c.to_string() + " result: " + rc.to_string());
      if (u.get_current_mode() == HLL) { count_first_after_merge(tr.back().c); if (u.is_out_of_order_flag()) any_ooo_union = true; }
    } else if (cell.fam == F_HLL_REUSE) {
      hll_sketch s(cell.lg_k, TYPES[t % 3]);
      for (uint64_t j = 0; j < (4ULL << cell.lg_k); ++j) s.update(bij(~kb + j));
      s.reset();
      for (uint64_t i = 0; i < n; ++i) s.update(key(i));
      tr.push_back(observe(s, n, fam, ctx));
    } else if (cell.fam == F_HLL_UNION_REUSE) {
      static thread_local std::unique_ptr<hll_union> persistent;     // one union object for all trials of the cell
      if (t == 0) persistent.reset(new hll_union(cell.lg_k));
      hll_union& u = *persistent;
      { hll_sketch junk(cell.lg_k, TYPES[t % 3]); for (uint64_t j = 0; j < (4ULL << cell.lg_k); ++j) junk.update(bij(~kb + j)); u.update(junk); u.update(bij(~kb)); }
      u.reset();
      const uint64_t a_end = n - n * 2 / 5, b_begin = n * 2 / 5;
      hll_sketch a(cell.lg_k, TYPES[t % 3]), b(cell.lg_k, TYPES[(t / 3) % 3]);
      for (uint64_t i = 0; i < a_end; ++i) a.update(key(i));
      for (uint64_t i = b_begin; i < n; ++i) b.update(key(i));
      u.update(a); u.update(b);
      tr.push_back(observe(u, n, fam, ctx));
      if (u.get_current_mode() == HLL) { count_first_after_merge(tr.back().c); if (u.is_out_of_order_flag()) any_ooo_union = true; }
      if (t + 1 == cell.trials) persistent.reset();
    } else if (cell.fam >= F_RAW && cell.fam < F_RAW + 9) {
      const int order = (cell.fam - F_RAW) / 3, rel = (cell.fam - F_RAW) % 3;
      const uint8_t op_lg = static_cast<uint8_t>(cell.lg_k + (rel == 0 ? 2 : 0)), max_lg = static_cast<uint8_t>(cell.lg_k + (rel == 2 ? 2 : 0));
      const bool est_between = t & 1;
      hll_union u(max_lg);
      // the raw items are the same 64-bit keys, offered through three overloads that denote the same item
      auto raw = [&](uint64_t from, uint64_t to) {
        for (uint64_t i = from; i < to; ++i) {
          const uint64_t kx = key(i);
          switch ((t / 2) % 3) {
            case 0: u.update(kx); break;
            case 1: u.update(static_cast<int64_t>(kx)); break;
            default: { uint8_t b[8]; for (int j = 0; j < 8; ++j) b[j] = static_cast<uint8_t>(kx >> (8 * j)); u.update(b, 8); }
          }
        }
      };
      auto sketch = [&](uint64_t from, uint64_t to, int ty) {
        hll_sketch sk(op_lg, TYPES[ty % 3]);
        for (uint64_t i = from; i < to; ++i) sk.update(key(i));
        if (t & 4) u.update(std::move(sk)); else u.update(sk);
      };
      auto between = [&] { if (est_between) { const double e = u.get_estimate(); VF_CHECK(std::isfinite(e) && e >= 0, fam + "|intermediate-estimate|not-finite-or-negative", ctx); } };
      // 20% overlaps between consecutive steps; the union of all steps is keys [0, n)
      if (order == 0) { sketch(0, n / 2, t); between(); raw(n * 2 / 5, n); }
      else if (order == 1) { raw(0, n / 2); between(); sketch(n * 2 / 5, n, t); }
      else { sketch(0, n * 2 / 5, t); between(); raw(n * 3 / 10, n * 7 / 10); between(); sketch(n * 3 / 5, n, t + 1); }
      // the union object itself is read out (get_estimate / bounds of hll_union), then compared with its result
      tr.push_back(observe(u, n, fam, ctx));
      if (order != 0 && u.get_current_mode() == HLL) count_first_after_merge(tr.back().c);
      const hll_sketch res = u.get_result(TYPES[(t / 9) % 3]);
      const Chain rc = read_chain_c(res);
      VF_CHECK(rc.unstable.empty() && same_chain(rc, tr.back().c), fam + "|union-object-vs-result|estimate-or-bounds-differ",
               ctx + " union: " + tr.back().c.to_string() + " result: " + rc.to_string() + rc.unstable);
      if (u.get_current_mode() == HLL && u.is_out_of_order_flag()) any_ooo_union = true;
    } else {
      // A gets keys [0, 0.6n), B gets keys [0.4n, n): 20% overlap; target types rotate with the trial
      const uint64_t a_end = n - n * 2 / 5, b_begin = n * 2 / 5;
      // mixed family: A is two steps finer than the union (lg_max_k = lg_k) and B; the feeding order alternates
      const bool mixed = cell.fam == F_HLL_UNION_MIXED;
      if (cell.fam == F_CROSSOVER) count("mc_crossover_trials");
      hll_sketch a(static_cast<uint8_t>(cell.lg_k + (mixed ? 2 : 0)), TYPES[t % 3]), b(cell.lg_k, TYPES[(t / 3) % 3]);
      for (uint64_t i = 0; i < a_end; ++i) a.update(key(i));
      for (uint64_t i = b_begin; i < n; ++i) b.update(key(i));
      hll_union u(cell.lg_k);
      if (mixed && (t & 1)) { u.update(b); u.update(a); } else { u.update(a); u.update(b); }
      // the union object is read before or after get_result() (random), and must report what its result reports
      const bool result_first = order_next() & 1;
      Trial tu;
      if (!result_first) { tu = observe(u, n, fam, ctx); if (u.get_current_mode() == HLL) count_first_after_merge(tu.c); }
      const hll_sketch res = u.get_result(TYPES[(t / 9) % 3]);
      tr.push_back(observe(res, n, fam, ctx));
      if (result_first) tu = observe(u, n, fam, ctx);
      VF_CHECK(same_chain(tu.c, tr.back().c), fam + "|union-object-vs-result|estimate-or-bounds-differ",
               ctx + " union: " + tu.c.to_string() + " result: " + tr.back().c.to_string());
      if (res.get_current_mode() == HLL && res.is_out_of_order_flag()) any_ooo_union = true;
    }
  }
  bool all_exact = true;
  for (auto& t : tr) all_exact = all_exact && t.exact_class;
  const bool unioned = cell.fam >= F_HLL_UNION && any_ooo_union;
  // published relative standard error: hll_sketch::get_rel_err at one standard deviation (mean of both sides)
  const double rse = 0.5 * (hll_sketch::get_rel_err(false, unioned, cell.lg_k, 1) - hll_sketch::get_rel_err(true, unioned, cell.lg_k, 1));
  const std::string ctx = "family=" + fam + " lg_k=" + std::to_string(cell.lg_k) + " n=" + std::to_string(n);
  // exact-class cells (every trial in LIST/SET mode): the error is a rare collision event, so the per-trial
  // small-range window replaces the bias/spread statistics; coverage is still checked.
  const CellResult R = check_cell(tr, n, rse, fam, ctx, !all_exact, true);
  if (cell.fam == F_CROSSOVER) { const std::string rec = check_interval_miss(tr, n, fam, ctx); count("mc_hires_cells"); sample("{\"hires_cell\":" + jstr(rec) + "}"); }
  if (!all_exact && (cell.fam < F_HLL_UNION || cell.fam == F_HLL8_LARGE)) {
    // composite estimator of a plain sketch: bias/spread against the published non-HIP error
    std::vector<Trial> ct = tr;
    for (auto& t : ct) t.c.est = t.aux;
    const double crse = 0.5 * (hll_sketch::get_rel_err(false, true, cell.lg_k, 1) - hll_sketch::get_rel_err(true, true, cell.lg_k, 1));
    check_cell(ct, n, crse, fam + "_composite", ctx + " (composite estimate)", true, false);
    count("mc_composite_cells");
  }
  count("mc_cells");
  count("mc_trials", cell.trials);
  count(std::string("mc_") + fam + "_" + (all_exact ? "exact" : range_class(cell.lg_k, n)));
  sig(mix64(mix64(100 + cell.fam, cell.lg_k), mix64(n, dbits(std::floor(R.sd * 1e12)))));
  if (want_sample()) sample("{\"cell\":" + jstr(ctx) + ",\"trials\":" + std::to_string(cell.trials) + ",\"result\":" + jstr(R.to_string()) + "}");
}

} // namespace vf
