// C11 unit: tdigest (float / double, incl. the big-endian "compat" images of the reference implementation) and
// density_sketch (float / double).
#include "vf/c11_fault.hpp"
#include <tdigest.hpp>
#include <density_sketch.hpp>

using namespace datasketches;
namespace vf { namespace c11 {

unsigned variants(bool thorough) { return thorough ? 20 : 4; }

// read-outs that resolve a randomised state (union gadget -> result, EBPPS partial item) pin the library's generators
// themselves, so that the read-out is a pure function of the sketch state
static void pin() { random_utils::rand.seed(0x5eed1234ULL); random_utils::random_bit.seed(0x5eed1234U); }
template<typename V> static std::string strv(const V& v) { return hex(v.data(), v.size()); }

// ------------------------------------------------------------------ tdigest
// A digest far larger than any image of this corpus (a corrupted count that the input happened to back): summary only, so that
// the monitor's own text rendering of millions of centroids is not mistaken for an endless loop of the library.
template<typename T> static bool td_giant(const tdigest<T>& s) { return s.get_serialized_size_bytes(true) > (1u << 16); }
template<typename T> static std::string td_readout(const tdigest<T>& s) {
  if (td_giant(s)) return "GIANT k=" + std::to_string(s.get_k()) + " empty=" + std::to_string(s.is_empty()) + " w=" + std::to_string(s.get_total_weight()) +
                          " sszb=" + std::to_string(s.get_serialized_size_bytes(true)) + " str=" + strv(s.to_string(false));
  // the image with the buffer first: get_rank / get_quantile / serialize(with_buffer = false) compress as a side effect
  const auto wb = s.serialize(0, true);
  std::string o = "k=" + std::to_string(s.get_k()) + " empty=" + std::to_string(s.is_empty()) + " w=" + std::to_string(s.get_total_weight());
  o += " sszb=" + std::to_string(s.get_serialized_size_bytes(true));
  o += " serb=" + hexv(wb);
  { std::ostringstream os; s.serialize(os, true); o += " sersb=" + std::to_string(os.str().size()) + " same=" + std::to_string(os.str() == std::string(wb.begin(), wb.end())); }
  o += " str=" + strv(s.to_string(true));
  if (!s.is_empty()) {
    const T mn = s.get_min_value(), mx = s.get_max_value();
    o += " min=" + num(mn) + " max=" + num(mx);
    o += " rk:";
    std::vector<T> splits;
    for (int i = -1; i <= 9; ++i) {
      const T v = static_cast<T>(mn + (mx - mn) * (static_cast<double>(i) / 8.0));
      o += num(s.get_rank(v)) + ",";
      if (i >= 0 && i <= 8 && (splits.empty() || splits.back() < v)) splits.push_back(v);
    }
    o += " q:";
    for (double q : {0.0, 0.001, 0.1, 0.25, 0.5, 0.75, 0.9, 0.999, 1.0}) o += num(s.get_quantile(q)) + ",";
    if (!splits.empty()) {
      o += " cdf:"; for (double v : s.get_CDF(splits.data(), static_cast<uint32_t>(splits.size()))) o += num(v) + ",";
      o += " pmf:"; for (double v : s.get_PMF(splits.data(), static_cast<uint32_t>(splits.size()))) o += num(v) + ",";
    }
  }
  const auto nb = s.serialize(0, false);
  o += " ssz=" + std::to_string(s.get_serialized_size_bytes(false)) + " ser=" + hexv(nb);
  { std::ostringstream os; s.serialize(os, false); o += " sers=" + std::to_string(os.str().size()) + " same=" + std::to_string(os.str() == std::string(nb.begin(), nb.end())); }
  o += " str2=" + strv(s.to_string(true));
  return o;
}
template<typename T> static void td_use(tdigest<T>& s) {
  Rng r(96);
  if (td_giant(s)) { s.update(static_cast<T>(1)); (void)s.get_total_weight(); return; }
  for (int i = 0; i < 50; ++i) s.update(static_cast<T>(r.unit() * 100 - 50));
  tdigest<T> fresh(20);
  for (int i = 0; i < 200; ++i) fresh.update(static_cast<T>(r.unit() * 10));
  s.merge(fresh);
  (void)s.get_rank(static_cast<T>(1)); (void)s.get_quantile(0.5); (void)s.get_min_value(); (void)s.get_max_value();
  (void)s.serialize(0, true); (void)s.serialize(0, false); (void)s.to_string(true);
}
template<typename T> static std::string td_bytes(const void* p, size_t n, bool use) {
  return accept([&] { return tdigest<T>::deserialize(p, n); }, td_readout<T>, td_use<T>, use);
}
template<typename T> static std::string td_stream(std::istream& is, bool use) {
  return accept([&] { return tdigest<T>::deserialize(is); }, td_readout<T>, td_use<T>, use);
}
enum DK { D_EMPTY, D_SINGLE, D_BUFFER_WB, D_BUFFER_NB, D_COMPRESSED, D_CENTROIDS_AND_BUFFER, D_COMPAT_DOUBLE, D_COMPAT_FLOAT };
template<typename V> static void put_be(Bytes& b, V v) {
  uint8_t t[sizeof(V)]; memcpy(t, &v, sizeof(V));
  for (size_t i = sizeof(V); i-- > 0;) b.push_back(t[i]);
}
template<typename T> static T td_value(Rng& r, int shape) {
  switch (shape) {
    case 0: return static_cast<T>(r.range(-1000, 1000)) * static_cast<T>(0.125);
    case 1: return static_cast<T>(r.below(6));
    default: return static_cast<T>(r.unit() * 1e4 - 5e3);
  }
}
// image in the format of the reference implementation (big endian): asBytes() (doubles) or asSmallBytes() (floats)
static Bytes td_compat_image(Rng& r, bool small) {
  Bytes b;
  const uint32_t nc = static_cast<uint32_t>(r.range(1, 40));
  std::vector<double> means;
  for (uint32_t i = 0; i < nc; ++i) means.push_back(static_cast<double>(static_cast<float>(r.unit() * 1000 - 500)));
  std::sort(means.begin(), means.end());
  const double k = static_cast<double>(r.range(10, 60));
  put_be<uint32_t>(b, small ? 2 : 1);
  put_be<double>(b, means.front()); put_be<double>(b, means.back());
  if (!small) {
    put_be<double>(b, k);
    put_be<uint32_t>(b, nc);
    for (uint32_t i = 0; i < nc; ++i) { put_be<double>(b, static_cast<double>(1 + r.below(20))); put_be<double>(b, means[i]); }
  } else {
    put_be<float>(b, static_cast<float>(k));
    put_be<uint16_t>(b, static_cast<uint16_t>(2 * nc)); put_be<uint16_t>(b, static_cast<uint16_t>(5 * nc));   // capacities, unused by the reader
    put_be<uint16_t>(b, static_cast<uint16_t>(nc));
    for (uint32_t i = 0; i < nc; ++i) { put_be<float>(b, static_cast<float>(1 + r.below(20))); put_be<float>(b, static_cast<float>(means[i])); }
  }
  return b;
}
template<typename T> static Bytes td_image(Rng& r, bool T_, int kind) {
  if (kind == D_COMPAT_DOUBLE) return td_compat_image(r, false);
  if (kind == D_COMPAT_FLOAT) return td_compat_image(r, true);
  const uint16_t k = static_cast<uint16_t>(r.range(10, T_ ? 40 : 25));
  const int shape = static_cast<int>(r.below(3));
  tdigest<T> s(k);
  const uint64_t cap = 4 * (2 * static_cast<uint64_t>(k) + (k < 30 ? 30 : 10));   // buffer capacity
  bool with_buffer = false;
  uint64_t n = 0;
  switch (kind) {
    case D_EMPTY: n = 0; with_buffer = r.coin(); break;
    case D_SINGLE: n = 1; with_buffer = r.coin(); break;
    case D_BUFFER_WB: n = 2 + r.below(60); with_buffer = true; break;
    case D_BUFFER_NB: n = 2 + r.below(60); with_buffer = false; break;
    case D_COMPRESSED: n = cap + 10 + r.below(6 * cap); with_buffer = false; break;
    default: n = cap * (1 + r.below(3)) + 1 + r.below(24); with_buffer = true; break;     // centroids plus 1..24 buffered values
  }
  for (uint64_t i = 0; i < n; ++i) s.update(td_value<T>(r, shape));
  auto v = s.serialize(0, with_buffer);
  return Bytes(v.begin(), v.end());
}

// ------------------------------------------------------------------ density
template<typename T> static std::string dn_common(const density_sketch<T>& s) {
  std::string o = "k=" + std::to_string(s.get_k()) + " dim=" + std::to_string(s.get_dim()) + " n=" + std::to_string(s.get_n()) +
                  " ret=" + std::to_string(s.get_num_retained()) + " empty=" + std::to_string(s.is_empty()) + " em=" + std::to_string(s.is_estimation_mode());
  o += " P:";
  uint64_t cnt = 0, tw = 0;
  for (auto it = s.begin(); it != s.end(); ++it) {
    const auto p = *it;
    o += "(";
    for (const T v : p.first) o += num(v) + " ";
    o += ")*" + std::to_string(p.second) + ",";
    ++cnt; tw += p.second;
  }
  o += " iter=" + std::to_string(cnt) + " tw=" + std::to_string(tw);
  if (!s.is_empty() && s.get_dim() <= 64) {
    Rng pr(4242);
    o += " est:";
    for (int i = 0; i < 4; ++i) { std::vector<T> q(s.get_dim()); for (auto& v : q) v = static_cast<T>(pr.unit() * 4 - 2); o += num(s.get_estimate(q)) + ","; }
  }
  return o;
}
template<typename T> static std::string dn_readout(const density_sketch<T>& s) {
  std::string o = dn_common(s);
  o += " str=" + strv(s.to_string(true, true));
  const auto b = s.serialize();
  o += " ser=" + hexv(b);
  std::ostringstream os; s.serialize(os);
  o += " sers=" + std::to_string(os.str().size()) + " same=" + std::to_string(os.str() == std::string(b.begin(), b.end()));
  return o;
}
template<typename T> static void dn_fill(density_sketch<T>& s, uint64_t n, Rng& r) {
  std::vector<T> p(s.get_dim());
  for (uint64_t i = 0; i < n; ++i) { for (auto& v : p) v = static_cast<T>(r.chance(0.2) ? static_cast<double>(r.range(-3, 3)) : r.unit() * 4 - 2); s.update(p); }
}
template<typename T> static void dn_use(density_sketch<T>& s) {
  Rng r(95);
  pin();
  if (s.get_dim() <= 64) {     // a corrupted dimension field is the user's to interpret; do not allocate giant points here
    dn_fill(s, 50, r);
    density_sketch<T> fresh(s.get_k(), s.get_dim());
    dn_fill(fresh, 20, r);
    s.merge(fresh);
    (void)dn_common(s);
  }
  (void)s.serialize();
}
template<typename T> static std::string dn_bytes(const void* p, size_t n, bool use) {
  return accept([&] { return density_sketch<T>::deserialize(p, n); }, dn_readout<T>, dn_use<T>, use);
}
template<typename T> static std::string dn_stream(std::istream& is, bool use) {
  return accept([&] { return density_sketch<T>::deserialize(is); }, dn_readout<T>, dn_use<T>, use);
}
enum NK { N_EMPTY, N_FEW, N_ESTIMATION };
template<typename T> static Bytes dn_image(Rng& r, bool T_, int kind) {
  const uint16_t k = static_cast<uint16_t>(r.range(4, T_ ? 16 : 10));
  const uint32_t dim = static_cast<uint32_t>(r.range(1, 3));
  density_sketch<T> s(k, dim);
  switch (kind) {
    case N_EMPTY: break;
    case N_FEW: dn_fill(s, 1 + r.below(k - 1), r); break;
    default: dn_fill(s, 2 * k + r.below(10 * static_cast<uint64_t>(k)), r); break;
  }
  auto v = s.serialize();
  return Bytes(v.begin(), v.end());
}

// ------------------------------------------------------------------ registration
struct KindName { const char* name; int k; };
template<typename T> static void add_misc(std::vector<std::vector<Target>>& fam, const std::string& suffix) {
  const KindName dks[] = {{"empty", D_EMPTY}, {"single", D_SINGLE}, {"buffer_only_with_buffer", D_BUFFER_WB}, {"buffer_only_compressed", D_BUFFER_NB},
    {"compressed", D_COMPRESSED}, {"centroids_and_buffer", D_CENTROIDS_AND_BUFFER}, {"compat_double", D_COMPAT_DOUBLE}, {"compat_float", D_COMPAT_FLOAT}};
  const KindName nks[] = {{"empty", N_EMPTY}, {"few", N_FEW}, {"estimation", N_ESTIMATION}};
  fam.emplace_back();
  for (auto& k : dks) {
    const int kk = k.k;
    BuildFn b = [kk](Rng& r, bool T_) { return td_image<T>(r, T_, kk); };
    // native images: preamble longs as declared (8 or 16 bytes); reference-implementation images: type word, min, max,
    // compression and the centroid count (32 bytes for asBytes(), 30 for asSmallBytes())
    auto pre = [kk](const Bytes& img) -> size_t {
      if (kk == D_COMPAT_DOUBLE) return std::min<size_t>(img.size(), 32);
      if (kk == D_COMPAT_FLOAT) return std::min<size_t>(img.size(), 30);
      return default_preamble("tdigest", img);
    };
    fam.back().push_back({"tdigest_" + suffix, k.name, "bytes", b, bytes_path(td_bytes<T>), pre});
    fam.back().push_back({"tdigest_" + suffix, k.name, "stream", b, stream_path(td_stream<T>), pre});
  }
  fam.emplace_back();
  for (auto& k : nks) {
    const int kk = k.k;
    BuildFn b = [kk](Rng& r, bool T_) { return dn_image<T>(r, T_, kk); };
    fam.back().push_back({"density_" + suffix, k.name, "bytes", b, bytes_path(dn_bytes<T>)});
    fam.back().push_back({"density_" + suffix, k.name, "stream", b, stream_path(dn_stream<T>)});
  }
}

std::vector<Target> targets() {
  std::vector<std::vector<Target>> fam;
  add_misc<float>(fam, "float");
  add_misc<double>(fam, "double");
  std::vector<Target> t;
  for (size_t i = 0;; ++i) {
    bool any = false;
    for (auto& f : fam) if (i < f.size()) { t.push_back(f[i]); any = true; }
    if (!any) break;
  }
  return t;
}

}} // namespace
