// C11 unit: Theta compact images (v3 empty / single / exact / estimation, ordered and unordered,
// compressed v4) through deserialize(bytes), deserialize(stream) and wrap(bytes).
#include "vf/c11_fault.hpp"
#include <theta_sketch.hpp>
#include <theta_union.hpp>
#include <theta_intersection.hpp>
#include <theta_a_not_b.hpp>

using namespace datasketches;
namespace vf { namespace c11 {

unsigned variants(bool thorough) { return thorough ? 20 : 3; }

// ------------------------------------------------------------------ theta
template<typename S> static std::string theta_common(const S& s) {
  std::string o;
  o += "empty=" + std::to_string(s.is_empty()) + " ordered=" + std::to_string(s.is_ordered()) + " theta=" + std::to_string(s.get_theta64()) +
       " n=" + std::to_string(s.get_num_retained()) + " sh=" + std::to_string(s.get_seed_hash()) + " est=" + num(s.get_estimate()) +
       " em=" + std::to_string(s.is_estimation_mode());
  for (uint8_t sd = 1; sd <= 3; ++sd) o += " b" + std::to_string(sd) + "=" + num(s.get_lower_bound(sd)) + "/" + num(s.get_upper_bound(sd));
  o += " E:";
  uint64_t cnt = 0;
  for (auto it = s.begin(); it != s.end(); ++it) { o += std::to_string(*it) + ","; ++cnt; }
  o += " iter=" + std::to_string(cnt);
  o += " str=" + std::to_string(s.to_string(true).size());
  return o;
}

static std::string theta_readout(const compact_theta_sketch& s) {
  std::string o = theta_common(s);
  o += " ser=" + hexv(s.serialize());
  if (s.is_ordered()) o += " serc=" + hexv(s.serialize_compressed());
  std::ostringstream os; s.serialize(os); o += " sers=" + std::to_string(os.str().size());
  return o;
}

template<typename S> static void theta_use(const S& s) {
  auto fresh = update_theta_sketch::builder().set_lg_k(5).build();
  for (int i = 0; i < 50; ++i) fresh.update(static_cast<uint64_t>(i) * 7919 + 3);
  auto u = theta_union::builder().set_lg_k(6).build();
  u.update(s); u.update(fresh);
  compact_theta_sketch r = u.get_result();
  (void)theta_common(r); (void)r.serialize();
  theta_intersection in; in.update(s); in.update(fresh);
  compact_theta_sketch r2 = in.get_result(); (void)theta_common(r2);
  theta_a_not_b anb; compact_theta_sketch r3 = anb.compute(s, fresh); (void)theta_common(r3);
  compact_theta_sketch r4 = anb.compute(fresh, s); (void)theta_common(r4);
}

static std::string theta_bytes(const void* p, size_t n, bool use) {
  return accept([&] { return compact_theta_sketch::deserialize(p, n); }, theta_readout, theta_use<compact_theta_sketch>, use);
}
static std::string theta_stream(std::istream& is, bool use) {
  return accept([&] { return compact_theta_sketch::deserialize(is); }, theta_readout, theta_use<compact_theta_sketch>, use);
}
static std::string theta_wrap_readout(const wrapped_compact_theta_sketch& w) {
  std::string o = theta_common(w);
  compact_theta_sketch c(w, w.is_ordered());
  o += " ser=" + hexv(c.serialize());
  if (c.is_ordered()) o += " serc=" + hexv(c.serialize_compressed());
  std::ostringstream os; c.serialize(os); o += " sers=" + std::to_string(os.str().size());
  return o;
}
static std::string theta_wrap(const void* p, size_t n, bool use) {
  return accept([&] { return wrapped_compact_theta_sketch::wrap(p, n); }, theta_wrap_readout, theta_use<wrapped_compact_theta_sketch>, use);
}

enum TK { T_EMPTY, T_SINGLE, T_EXACT, T_EXACT_UNORD, T_EST, T_EST_UNORD, T_V4_EXACT, T_V4_EST, T_EMPTY_P, T_BIG, T_BIG_V4 };   // BIG: lg_k 20..24, a few entries
static update_theta_sketch theta_state(Rng& r, bool T, int kind) {
  const bool big = kind == T_BIG || kind == T_BIG_V4;   // large nominal configuration, tiny content
  const uint8_t lg_k = static_cast<uint8_t>(big ? r.range(20, 24) : r.range(5, T ? 8 : 6));
  float p = 1.0f;
  if (kind == T_EMPTY_P) p = 0.5f;
  auto s = update_theta_sketch::builder().set_lg_k(lg_k).set_p(p).build();
  const uint64_t k = 1ULL << lg_k;
  uint64_t n = 0;
  switch (kind) {
    case T_EMPTY: case T_EMPTY_P: n = 0; break;
    case T_SINGLE: n = 1; break;
    case T_BIG: case T_BIG_V4: n = 3 + r.below(18); break;
    case T_EXACT: case T_EXACT_UNORD: case T_V4_EXACT: n = 2 + r.below(k - 2); break;
    default: n = 2 * k + r.below(4 * k); break;
  }
  const uint64_t base = r.next();
  for (uint64_t i = 0; i < n; ++i) s.update(static_cast<uint64_t>(base + i * UINT64_C(0x9e3779b97f4a7c15)));
  return s;
}
static Bytes theta_image(Rng& r, bool T, int kind) {
  auto s = theta_state(r, T, kind);
  const bool ordered = !(kind == T_EXACT_UNORD || kind == T_EST_UNORD);
  compact_theta_sketch c = s.compact(ordered);
  auto v = (kind == T_V4_EXACT || kind == T_V4_EST || kind == T_BIG_V4) ? c.serialize_compressed() : c.serialize();
  return Bytes(v.begin(), v.end());
}

// ------------------------------------------------------------------ registration
// ------------------------------------------------------------------ legacy / foreign layouts the readers still accept
// v1: byte0 preLongs=3 1 serVer=1 2 type=3 3-7 unused (no seed hash) | u32 count, f32 p | u64 theta | entries   (always ordered)
// v2: byte0 preLongs 1|2|3, serVer=2, type=3, 3-4 unused, 5 flags, 6-7 seed hash | [u32 count, f32 p] | [u64 theta] | entries (ordered)
// v3 forms that only other implementations write: Java single-item flag (bit 5), theta long stored although exact
enum LK { L_V1_EMPTY, L_V1_EXACT, L_V1_EST, L_V1_EST_NOENT, L_V2_EMPTY1, L_V2_EXACT, L_V2_EST, L_V2_EMPTY3, L_V3_SINGLE_JAVA, L_V3_EXACT_THETA };
static std::vector<uint64_t> some_hashes(Rng& r, size_t n, uint64_t below) {
  std::set<uint64_t> s;
  while (s.size() < n) { uint64_t h = r.next() >> 1; if (below < theta_constants::MAX_THETA) h %= below; if (h != 0) s.insert(h); }
  return std::vector<uint64_t>(s.begin(), s.end());
}
static Bytes theta_legacy_image(Rng& r, bool, int kind) {
  const uint64_t MAXT = theta_constants::MAX_THETA;
  const uint16_t sh = update_theta_sketch::builder().build().compact().get_seed_hash();
  const uint64_t est_theta = (MAXT / 7) * (2 + r.below(3));
  const size_t n = 3 + r.below(30);
  Wr w;
  switch (kind) {
    case L_V1_EMPTY: w.u8(3).u8(1).u8(3).u8(0).u8(0).u8(0x1e).u16(0).u32(0).f32(1.0f).u64(MAXT); break;
    case L_V1_EXACT: { auto e = some_hashes(r, n, MAXT); w.u8(3).u8(1).u8(3).u8(0).u8(0).u8(0x1a).u16(0).u32(uint32_t(e.size())).f32(1.0f).u64(MAXT); for (auto x : e) w.u64(x); break; }
    case L_V1_EST: { auto e = some_hashes(r, n, est_theta); w.u8(3).u8(1).u8(3).u8(0).u8(0).u8(0x1a).u16(0).u32(uint32_t(e.size())).f32(1.0f).u64(est_theta); for (auto x : e) w.u64(x); break; }
    case L_V1_EST_NOENT: w.u8(3).u8(1).u8(3).u8(0).u8(0).u8(0x1a).u16(0).u32(0).f32(0.5f).u64(est_theta); break;
    case L_V2_EMPTY1: w.u8(1).u8(2).u8(3).u8(0).u8(0).u8(0x1e).u16(sh); break;
    case L_V2_EXACT: { auto e = some_hashes(r, n, MAXT); w.u8(2).u8(2).u8(3).u8(0).u8(0).u8(0x1a).u16(sh).u32(uint32_t(e.size())).f32(1.0f); for (auto x : e) w.u64(x); break; }
    case L_V2_EST: { auto e = some_hashes(r, n, est_theta); w.u8(3).u8(2).u8(3).u8(0).u8(0).u8(0x1a).u16(sh).u32(uint32_t(e.size())).f32(1.0f).u64(est_theta); for (auto x : e) w.u64(x); break; }
    case L_V2_EMPTY3: w.u8(3).u8(2).u8(3).u8(0).u8(0).u8(0x1e).u16(sh).u32(0).f32(1.0f).u64(MAXT); break;
    case L_V3_SINGLE_JAVA: { auto e = some_hashes(r, 1, MAXT); w.u8(1).u8(3).u8(3).u16(0).u8(0x3a).u16(sh).u64(e[0]); break; }
    default: { auto e = some_hashes(r, n, MAXT); w.u8(3).u8(3).u8(3).u16(0).u8(0x1a).u16(sh).u32(uint32_t(e.size())).u32(0).u64(MAXT); for (auto x : e) w.u64(x); break; }
  }
  return w.b;
}

std::vector<Target> targets() {
  std::vector<Target> t;
  struct { const char* name; int k; } tks[] = {{"empty", T_EMPTY}, {"empty_p", T_EMPTY_P}, {"single", T_SINGLE}, {"exact", T_EXACT}, {"exact_unordered", T_EXACT_UNORD}, {"bigcfg_few", T_BIG}, {"bigcfg_few_compressed", T_BIG_V4},
    {"estimation", T_EST}, {"estimation_unordered", T_EST_UNORD}, {"compressed_exact", T_V4_EXACT}, {"compressed_estimation", T_V4_EST}};
  for (auto& k : tks) {
    const int kk = k.k;
    BuildFn b = [kk](Rng& r, bool T) { return theta_image(r, T, kk); };
    t.push_back({"theta", k.name, "bytes", b, bytes_path(theta_bytes)});
    t.push_back({"theta", k.name, "stream", b, stream_path(theta_stream)});
    t.push_back({"theta", k.name, "wrap", b, bytes_path(theta_wrap)});
  }
  struct { const char* name; int k; } lks[] = {{"legacy_v1_empty", L_V1_EMPTY}, {"legacy_v1_exact", L_V1_EXACT}, {"legacy_v1_estimation", L_V1_EST},
    {"legacy_v1_estimation_no_entries", L_V1_EST_NOENT}, {"legacy_v2_empty_1_long", L_V2_EMPTY1}, {"legacy_v2_exact", L_V2_EXACT}, {"legacy_v2_estimation", L_V2_EST},
    {"legacy_v2_empty_3_longs", L_V2_EMPTY3}, {"legacy_v3_single_item_java_flag", L_V3_SINGLE_JAVA}, {"legacy_v3_exact_with_theta_long", L_V3_EXACT_THETA}};
  for (auto& k : lks) {
    const int kk = k.k;
    BuildFn b = [kk](Rng& r, bool T) { return theta_legacy_image(r, T, kk); };
    t.push_back({"theta", k.name, "bytes", b, bytes_path(theta_bytes)});
    t.push_back({"theta", k.name, "stream", b, stream_path(theta_stream)});
    t.push_back({"theta", k.name, "wrap", b, bytes_path(theta_wrap)});
  }
  return t;
}

}} // namespace
