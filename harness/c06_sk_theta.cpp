// C06 (sketch level, Theta/Tuple) — while distinct keys are streamed into update_theta_sketch /
// update_tuple_sketch<double> (p in {1, 0.9, 0.5, 0.1}) and into 2-3 partial sketches that are unioned, at
// many checkpoints:  lb(3) <= lb(2) <= lb(1) <= est <= ub(1) <= ub(2) <= ub(3), all finite and >= 0;
// not in estimation mode => estimate == true distinct count exactly and all bounds == estimate;
// compact form reports the same numbers.
#include "vf/core.hpp"
#include "vf/c06_common.hpp"
#include <theta_sketch.hpp>
#include <theta_union.hpp>
#include <tuple_sketch.hpp>
#include <tuple_union.hpp>

using namespace datasketches;
namespace vf {
using namespace c06;

const char* property_id() { return "C06"; }
unsigned case_timeout_s() { return 300; }
uint64_t num_cases(bool thorough) { return thorough ? 100000 : 5000; }
void final_report() {}

struct Cfg { uint8_t lg_k; float p; int rf; uint64_t nmax; int parts; double overlap; uint64_t base; double step; bool tuple; };

template<typename S> static void observe(const S& s, uint64_t n, const char* fam, const Cfg& c, const char* what) {
  const Chain ch = read_chain(s);
  auto ctx = [&] { return std::string(what) + " lg_k=" + std::to_string(c.lg_k) + " p=" + str(c.p) + " n=" + std::to_string(n) + " retained=" + std::to_string(s.get_num_retained()) + " theta=" + str(s.get_theta()); };
  check_chain_lazy(ch, fam, ctx);
  if (!s.is_estimation_mode()) {
    VF_CHECK(ch.est == static_cast<double>(n), std::string(fam) + "|exact-mode|estimate-not-n", ctx() + " " + ch.to_string());
    VF_CHECK(ch.lb[1] == ch.est && ch.lb[2] == ch.est && ch.lb[3] == ch.est && ch.ub[1] == ch.est && ch.ub[2] == ch.est && ch.ub[3] == ch.est,
             std::string(fam) + "|exact-mode|bounds-not-equal-estimate", ctx() + " " + ch.to_string());
    count(std::string("sk_") + fam + "_exact");
  } else {
    count(std::string("sk_") + fam + (n <= (1ULL << c.lg_k) ? "_estimating_small" : (n <= (4ULL << c.lg_k) ? "_estimating_transition" : "_estimating_asymptotic")));
  }
  sig(mix64(mix64(reinterpret_cast<uintptr_t>(fam) & 0xff, c.lg_k), mix64(s.get_num_retained(), static_cast<uint64_t>(s.get_theta() * 1e9))));
}

template<typename SK, typename UN, typename MK, typename MKU, typename UPD>
static void stream(const Cfg& c, Rng& r, const char* fam, const char* ufam, MK make, MKU make_union, UPD upd) {
  SK main_sk = make();
  std::vector<SK> parts;
  for (int i = 0; i < c.parts; ++i) parts.push_back(make());
  // checkpoints
  const uint64_t k = 1ULL << c.lg_k;
  std::set<uint64_t> marks = {k - 1, k, k + 1, 2 * k - 1, 2 * k, 2 * k + 1, 15 * k / 8 - 1, 15 * k / 8, 15 * k / 8 + 1, c.nmax};
  double next = 48, next_union = 1 + static_cast<double>(r.below(8));
  observe(main_sk, 0, fam, c, "empty");
  {
    UN u = make_union();
    const auto res = u.get_result();
    observe(res, 0, ufam, c, "union of nothing");
  }
  for (uint64_t i = 0; i < c.nmax; ++i) {
    const uint64_t key = bij(c.base + i);
    upd(main_sk, key);
    upd(parts[i % c.parts], key);
    if (r.unit() < c.overlap) upd(parts[r.below(c.parts)], key);
    const uint64_t n = i + 1;
    bool obs = n <= 40 || marks.count(n);
    if (static_cast<double>(n) >= next) { obs = true; next = std::max(next * c.step, next + 1); }
    if (obs) {
      observe(main_sk, n, fam, c, "update sketch");
      if ((n & 7) == 0 || n <= 8) { const auto cs = main_sk.compact(); observe(cs, n, fam, c, "compact sketch"); }
      count("sk_checkpoints");
    }
    if (static_cast<double>(n) >= next_union || n == c.nmax || n == k || n == 2 * k) {
      next_union = std::max(next_union * 1.7, next_union + 1);
      UN u = make_union();
      for (int j = 0; j < c.parts; ++j) { if ((j + n) & 1) u.update(parts[j]); else u.update(parts[j].compact()); }
      const auto res = u.get_result();
      observe(res, n, ufam, c, "union result");
      { const auto res2 = u.get_result(); VF_CHECK(same_chain(read_chain(res2), read_chain(res)), std::string(ufam) + "|get_result|second-result-differs-from-first", "n=" + std::to_string(n)); }
      count("sk_union_checkpoints");
    }
  }
}

void run_case(uint64_t idx, Rng& r) {
  (void)idx;
  seed_order(r);
  const bool T = G().thorough();
  Cfg c;
  c.tuple = r.coin();
  c.lg_k = static_cast<uint8_t>(r.range(5, T ? 13 : 11));
  static const float ps[] = {1.0f, 1.0f, 1.0f, 0.5f, 0.5f, 0.9f, 0.1f};
  c.p = ps[r.below(7)];
  c.rf = static_cast<int>(r.below(4));
  const uint64_t k = 1ULL << c.lg_k;
  const uint64_t cap = T ? 400000 : 60000;
  // cardinality: log-uniform from 1 to min(64k, cap), one third of the cases end near k..2k
  const double hi = static_cast<double>(std::min<uint64_t>(64 * k, cap));
  c.nmax = r.chance(0.33) ? k / 2 + r.below(2 * k) : static_cast<uint64_t>(std::exp(r.unit() * std::log(hi)));
  if (c.nmax < 1) c.nmax = 1;
  c.parts = static_cast<int>(r.range(2, 3));
  c.overlap = r.chance(0.5) ? 0.0 : 0.3;
  c.base = r.next();
  c.step = 1.02 + 0.2 * r.unit();
  describe(std::string(c.tuple ? "tuple" : "theta") + " lg_k=" + std::to_string(c.lg_k) + " p=" + str(c.p) + " rf=" + std::to_string(c.rf) + " n=" + std::to_string(c.nmax) +
           " parts=" + std::to_string(c.parts) + " overlap=" + str(c.overlap) + " keybase=" + std::to_string(c.base));
  if (!c.tuple) {
    stream<update_theta_sketch, theta_union>(c, r, "theta", "theta_union",
      [&] { return update_theta_sketch::builder().set_lg_k(c.lg_k).set_p(c.p).set_resize_factor(static_cast<resize_factor>(c.rf)).build(); },
      [&] { return theta_union::builder().set_lg_k(c.lg_k).build(); },
      [](update_theta_sketch& s, uint64_t key) { s.update(key); });
  } else {
    typedef update_tuple_sketch<double> TS;
    stream<TS, tuple_union<double>>(c, r, "tuple", "tuple_union",
      [&] { return TS::builder().set_lg_k(c.lg_k).set_p(c.p).set_resize_factor(static_cast<resize_factor>(c.rf)).build(); },
      [&] { return tuple_union<double>::builder().set_lg_k(c.lg_k).build(); },
      [](TS& s, uint64_t key) { s.update(key, 1.0); });
  }
  if (want_sample()) sample("{\"config\":" + jstr(G().cur_desc) + "}");
}

} // namespace vf
