// C06 (sketch level, Theta/Tuple) — while distinct keys are streamed into update_theta_sketch /
// update_tuple_sketch<double> (p in {1, 0.9, 0.5, 0.1}) and into 2-3 partial sketches that are unioned, at
// many checkpoints:  lb(3) <= lb(2) <= lb(1) <= est <= ub(1) <= ub(2) <= ub(3), all finite and >= 0;
// not in estimation mode => estimate == true distinct count exactly and all bounds == estimate;
// compact form reports the same numbers; with p = 1 and n <= k the sketch / union result must be exact.
// Reuse: in 30% of the cases the sketches and a persistent union object are first driven into estimation mode
// with unrelated keys, reset(), and only then used (all resize factors incl. X1).
// Assignment programs (15% of the cases; update_theta_sketch, update_tuple_sketch<double>, update_array_of_doubles_sketch): a
// target and a source of different lg_k / p / resize factor / fill level (empty, exact, estimating); copy-assignment,
// move-assignment (from a copy of the source) or self-assignment; the target must then read out exactly like its source
// (estimate, bounds, estimation-mode flag, theta, retained count), the source must be unchanged, and under further distinct
// updates the target keeps satisfying every clause against the source's true count plus the new items (source still unchanged).
// Union programs (25% of the cases): 2-4 inputs of different lg_k / p / resize factor / fill level (exact ..
// deep estimation) over heavily overlapping key windows, offered to one union of its own lg_k in generated order,
// larger-lg_k-first or larger-lg_k-last (incl. the directed pattern "exact input with more than k entries, then a
// deeply sampled input"); result after every step: chain, exactness, and the true distinct count of the combined
// key set within 8 published standard deviations (+10) of the estimate.
#include "vf/core.hpp"
#include "vf/c06_common.hpp"
#include <theta_sketch.hpp>
#include <theta_union.hpp>
#include <tuple_sketch.hpp>
#include <tuple_union.hpp>
#include <array_of_doubles_sketch.hpp>

using namespace datasketches;
namespace vf {
using namespace c06;

const char* property_id() { return "C06"; }
unsigned case_timeout_s() { return 300; }
uint64_t num_cases(bool thorough) { return thorough ? 100000 : 5000; }
void final_report() {}

struct Cfg { uint8_t lg_k; float p; int rf; uint64_t nmax; int parts; double overlap; uint64_t base; double step; bool tuple; bool reuse; };

// a sketch that says is_ordered() delivers strictly ascending hashes (unions stop reading an ordered input at the first hash
// at or above their theta, so a wrong flag loses entries)
static uint64_t hash_of(uint64_t h) { return h; }
template<typename V> static uint64_t hash_of(const std::pair<uint64_t, V>& e) { return e.first; }
template<typename S> static void check_ordered(const S& s, const char* fam, const char* what) {
  if (!s.is_ordered() || s.get_num_retained() < 2) return;
  uint64_t prev = 0, pos = 0; bool ok = true;
  for (const auto& e : s) { const uint64_t h = hash_of(e); if (pos > 0 && h <= prev) { ok = false; break; } prev = h; ++pos; }
  VF_CHECK(ok, std::string(fam) + "|is_ordered|hashes-not-strictly-ascending", std::string(what) + " retained=" + std::to_string(s.get_num_retained()) + " first violation at entry " + std::to_string(pos));
  count("sk_ordered_checks");
}

template<typename S> static void observe(const S& s, uint64_t n, const char* fam, const Cfg& c, const char* what) {
  check_ordered(s, fam, what);
  const Chain ch = read_chain(s);
  auto ctx = [&] { return std::string(what) + " lg_k=" + std::to_string(c.lg_k) + " p=" + str(c.p) + " rf=" + std::to_string(c.rf) + " reused_after_reset=" + std::to_string(c.reuse) + " n=" + std::to_string(n) + " retained=" + std::to_string(s.get_num_retained()) + " theta=" + str(s.get_theta()); };
  check_chain_lazy(ch, fam, ctx);
  if (c.p == 1.0f && n <= (1ULL << c.lg_k)) {   // a sketch / union of nominal size k that was offered n <= k distinct items without sampling counts them exactly
    VF_CHECK(!s.is_estimation_mode() && ch.est == static_cast<double>(n), std::string(fam) + "|n<=k-without-sampling|not-exact", ctx() + " " + ch.to_string());
    count("sk_nominal_exact_checks");
  }
  if (!s.is_estimation_mode()) {
    VF_CHECK(ch.est == static_cast<double>(n), std::string(fam) + "|exact-mode|estimate-not-n", ctx() + " " + ch.to_string());
    VF_CHECK(ch.lb[1] == ch.est && ch.lb[2] == ch.est && ch.lb[3] == ch.est && ch.ub[1] == ch.est && ch.ub[2] == ch.est && ch.ub[3] == ch.est,
             std::string(fam) + "|exact-mode|bounds-not-equal-estimate", ctx() + " " + ch.to_string());
    count(std::string("sk_") + fam + "_exact");
  } else {
    count(std::string("sk_") + fam + (n <= (1ULL << c.lg_k) ? "_estimating_small" : (n <= (4ULL << c.lg_k) ? "_estimating_transition" : "_estimating_asymptotic")));
  }
  sig(mix64(mix64(reinterpret_cast<uintptr_t>(fam) & 0xff, c.lg_k), mix64(s.get_num_retained(), static_cast<uint64_t>(s.get_theta() * 1e9))));
}

// Tuple only: keys with key % special_mod == 0 carry summary 3.0, all others 1.0; filter(summary > 2) of the update sketch or
// of its compact form is a derived sketch for the sub-population "special keys", whose true count is tracked.
static uint64_t g_special_mod = 1;
static bool is_special(uint64_t key) { return key % g_special_mod == 0; }

template<typename F> static void observe_filtered(const F& fs, uint64_t n_special, uint64_t n, const Cfg& c, const char* what) {
  check_ordered(fs, "tuple_filter", what);
  const Chain ch = read_chain(fs);
  auto ctx = [&] { return std::string(what) + " lg_k=" + std::to_string(c.lg_k) + " p=" + str(c.p) + " n=" + std::to_string(n) + " true count of the filtered sub-population=" + std::to_string(n_special) +
                          " retained=" + std::to_string(fs.get_num_retained()) + " theta=" + str(fs.get_theta()) + " is_empty=" + std::to_string(fs.is_empty()); };
  check_chain_lazy(ch, "tuple_filter", ctx);
  if (!fs.is_estimation_mode()) {
    VF_CHECK(ch.est == static_cast<double>(n_special), "tuple_filter|exact-mode|estimate-not-n", ctx() + " " + ch.to_string());
    count("sk_tuple_filter_exact");
  } else {
    const double sigma = std::max(ch.est - ch.lb[1], ch.ub[1] - ch.est);
    VF_CHECK(std::fabs(ch.est - static_cast<double>(n_special)) <= 8.0 * sigma + 10.0, "tuple_filter|true-count-beyond-8-published-std-devs-of-estimate", ctx() + " sigma=" + str(sigma) + " " + ch.to_string());
    count(fs.get_num_retained() == 0 ? "sk_tuple_filter_estimating_nothing_retained" : "sk_tuple_filter_estimating");
    if (fs.get_num_retained() == 0 && n_special > 0) count("sk_tuple_filter_nothing_retained_but_subpopulation_nonempty");
  }
}
template<typename SK> static void filter_checks(const SK&, uint64_t, uint64_t, const Cfg&) {}
static void filter_checks(const update_tuple_sketch<double>& s, uint64_t n_special, uint64_t n, const Cfg& c) {
  auto pred = [](const double& v) { return v > 2.0; };
  if (n & 1) observe_filtered(s.filter(pred), n_special, n, c, "filter(summary>2) of update sketch");
  else { const auto cs = s.compact((n & 2) != 0); observe_filtered(cs.filter(pred), n_special, n, c, "filter(summary>2) of compact sketch"); }
}

template<typename SK, typename UN, typename MK, typename MKU, typename UPD>
static void stream(const Cfg& c, Rng& r, const char* fam, const char* ufam, MK make, MKU make_union, UPD upd) {
  SK main_sk = make();
  std::vector<SK> parts;
  for (int i = 0; i < c.parts; ++i) parts.push_back(make());
  UN ureuse = make_union();
  if (c.reuse) {   // drive everything into estimation mode with unrelated keys, then reset() and reuse
    const uint64_t junk = (2ULL << c.lg_k) + r.below(4ULL << c.lg_k);
    for (uint64_t j = 0; j < junk; ++j) { const uint64_t key = bij(~c.base + j); upd(main_sk, key); for (auto& p : parts) upd(p, key); }
    if (main_sk.is_estimation_mode() && main_sk.get_theta() < 0.99 * c.p) count(std::string("sk_reuse_after_estimation_mode_rf") + std::to_string(c.rf));
    ureuse.update(main_sk); ureuse.update(parts[0].compact());
    main_sk.reset(); for (auto& p : parts) p.reset(); ureuse.reset();
  }
  // checkpoints
  const uint64_t k = 1ULL << c.lg_k;
  std::set<uint64_t> marks = {k - 1, k, k + 1, 2 * k - 1, 2 * k, 2 * k + 1, 15 * k / 8 - 1, 15 * k / 8, 15 * k / 8 + 1, c.nmax};
  double next = 48, next_union = 1 + static_cast<double>(r.below(8));
  observe(main_sk, 0, fam, c, "empty");
  {
    UN u = make_union();
    const auto res = u.get_result();
    observe(res, 0, ufam, c, "union of nothing");
    if (c.reuse) { const auto res0 = ureuse.get_result(); observe(res0, 0, ufam, c, "reset union"); }
  }
  uint64_t n_special = 0;
  for (uint64_t i = 0; i < c.nmax; ++i) {
    const uint64_t key = bij(c.base + i);
    if (is_special(key)) ++n_special;
    upd(main_sk, key);
    upd(parts[i % c.parts], key);
    if (r.unit() < c.overlap) upd(parts[r.below(c.parts)], key);
    const uint64_t n = i + 1;
    bool obs = n <= 40 || marks.count(n);
    if (static_cast<double>(n) >= next) { obs = true; next = std::max(next * c.step, next + 1); }
    if (obs) {
      observe(main_sk, n, fam, c, "update sketch");
      if ((n & 7) == 0 || n <= 8) { const auto cs = main_sk.compact(); observe(cs, n, fam, c, "compact sketch"); }
      if ((n & 3) <= 1 || n <= 8) filter_checks(main_sk, n_special, n, c);
      count("sk_checkpoints");
    }
    if (static_cast<double>(n) >= next_union || n == c.nmax || n == k || n == 2 * k) {
      next_union = std::max(next_union * 1.7, next_union + 1);
      UN fresh = make_union();
      UN& u = c.reuse ? ureuse : fresh;     // the persistent union object was reset() after its previous use
      for (int j = 0; j < c.parts; ++j) { if ((j + n) & 1) u.update(parts[j]); else u.update(parts[j].compact()); }
      const auto res = u.get_result();
      observe(res, n, ufam, c, c.reuse ? "union result (union object reused after reset)" : "union result");
      if (c.reuse) count("sk_reuse_union_checkpoints");
      { const auto res2 = u.get_result(); VF_CHECK(same_chain(read_chain(res2), read_chain(res)), std::string(ufam) + "|get_result|second-result-differs-from-first", "n=" + std::to_string(n)); }
      count("sk_union_checkpoints");
      if (c.reuse) ureuse.reset();
    }
  }
}

// ------------------------------------------------------------------ assignment programs
template<typename SK, typename MK, typename UPD>
static void assign_program(Rng& r, bool T, const char* fam, MK make, UPD upd) {
  struct Side { uint8_t lg_k; float p; int rf; uint64_t n; int fill; };
  static const float ps[] = {1.0f, 1.0f, 1.0f, 0.5f, 0.1f};
  const uint64_t cap = T ? 300000 : 50000;
  auto gen = [&](int fill) {
    Side s; s.lg_k = static_cast<uint8_t>(r.range(5, T ? 12 : 11)); s.p = ps[r.below(5)]; s.rf = static_cast<int>(r.below(4)); s.fill = fill;
    const uint64_t k = 1ULL << s.lg_k;
    switch (fill) {
      case 0: s.n = 0; break;
      case 1: s.p = 1.0f; s.n = 1 + r.below(k); break;                                           // exact
      case 2: s.n = std::min<uint64_t>(cap, 2 * k + r.below(6 * k)); break;                       // estimating
      default: s.n = std::min<uint64_t>(cap, 16 * k + r.below(100 * k)); break;                   // estimating, much lower theta
    }
    return s;
  };
  // pairs (target fill, source fill): exact<-estimating, estimating<-exact, estimating<-estimating(other theta), ...
  static const int PAIRS[][2] = {{1, 2}, {1, 3}, {2, 1}, {3, 1}, {2, 3}, {3, 2}, {1, 1}, {0, 2}, {2, 0}, {3, 3}};
  const int pi = static_cast<int>(r.below(10));
  Side ta = gen(PAIRS[pi][0]), so = gen(PAIRS[pi][1]);
  const int kind = static_cast<int>(r.below(8));      // 0-3 copy assignment, 4-6 move assignment, 7 self assignment
  const uint64_t base = r.next();
  describe(std::string(fam) + " assignment kind=" + (kind < 4 ? "copy" : (kind < 7 ? "move" : "self")) + " target[lg_k=" + std::to_string(ta.lg_k) + " p=" + str(ta.p) + " rf=" + std::to_string(ta.rf) + " n=" + std::to_string(ta.n) +
           "] source[lg_k=" + std::to_string(so.lg_k) + " p=" + str(so.p) + " rf=" + std::to_string(so.rf) + " n=" + std::to_string(so.n) + "] keybase=" + std::to_string(base));
  SK a = make(ta.lg_k, ta.p, ta.rf), b = make(so.lg_k, so.p, so.rf);
  for (uint64_t i = 0; i < ta.n; ++i) upd(a, bij(base + i));
  for (uint64_t i = 0; i < so.n; ++i) upd(b, bij(base + (1ULL << 40) + i));
  if (kind == 7) so = ta;                              // self assignment: the source is the target itself
  Cfg c; c.lg_k = so.lg_k; c.p = so.p; c.rf = so.rf; c.nmax = 0; c.parts = 0; c.overlap = 0; c.base = base; c.step = 0; c.tuple = false; c.reuse = false;
  const SK& src = kind == 7 ? a : b;
  const Chain before = read_chain(src);
  const bool src_est = src.is_estimation_mode(); const double src_theta = src.get_theta(); const uint32_t src_ret = src.get_num_retained();
  const bool tgt_est = a.is_estimation_mode(); const double tgt_theta = a.get_theta();
  if (kind < 4) a = b;
  else if (kind < 7) { SK tmp(b); a = std::move(tmp); }
  else { SK& self = a; a = self; }
  auto ctx = [&] { return "after assignment: target theta=" + str(a.get_theta()) + " retained=" + std::to_string(a.get_num_retained()) + " estimation_mode=" + std::to_string(a.is_estimation_mode()) +
                          " | source theta=" + str(src_theta) + " retained=" + std::to_string(src_ret) + " estimation_mode=" + std::to_string(src_est) + " true count=" + std::to_string(so.n); };
  const Chain after = read_chain(a);
  VF_CHECK(after.unstable.empty() && same_chain(after, before), std::string(fam) + "|assignment|target-estimate-or-bounds-differ-from-source", ctx() + " target: " + after.to_string() + " source: " + before.to_string());
  VF_CHECK(a.is_estimation_mode() == src_est && a.get_theta() == src_theta && a.get_num_retained() == src_ret, std::string(fam) + "|assignment|target-mode-theta-or-retained-differ-from-source", ctx());
  if (kind != 7) {
    const Chain b_after = read_chain(b);
    VF_CHECK(same_chain(b_after, before) && b.is_estimation_mode() == src_est && b.get_theta() == src_theta && b.get_num_retained() == src_ret, std::string(fam) + "|assignment|source-changed", ctx() + " source now: " + b_after.to_string());
  }
  observe(a, so.n, fam, c, "assigned sketch");
  if (kind == 7) count("sk_assign_self");
  else if (!tgt_est && src_est) count("sk_assign_exact_from_estimating");
  else if (tgt_est && !src_est) count("sk_assign_estimating_from_exact");
  else if (tgt_est && src_est && tgt_theta != src_theta) count("sk_assign_estimating_from_estimating_other_theta");
  else count("sk_assign_other_pairs");
  count(kind < 4 ? "sk_assign_copy" : (kind < 7 ? "sk_assign_move" : "sk_assign_self_kind"));
  count(std::string("sk_assign_") + fam);
  // further distinct updates: the target counts the source's items plus the new ones; the source stays as it was
  const uint64_t more = 1 + r.below(4ULL << so.lg_k);
  double next = 1;
  for (uint64_t j = 0; j < more; ++j) {
    upd(a, bij(base + (2ULL << 40) + j));
    if (static_cast<double>(j + 1) >= next || j + 1 == more) {
      next = std::max(next * 1.3, next + 1);
      const uint64_t n = so.n + j + 1;
      observe(a, n, fam, c, "assigned sketch after further updates");
      if (a.is_estimation_mode()) {
        const Chain ch = read_chain(a);
        const double sigma = std::max(ch.est - ch.lb[1], ch.ub[1] - ch.est);
        VF_CHECK(std::fabs(ch.est - static_cast<double>(n)) <= 8.0 * sigma + 10.0, std::string(fam) + "|assignment|true-count-beyond-8-published-std-devs-after-further-updates",
                 "true count=" + std::to_string(n) + " theta=" + str(a.get_theta()) + " retained=" + std::to_string(a.get_num_retained()) + " " + ch.to_string());
      }
      count("sk_assign_continued_update_checkpoints");
    }
  }
  if (kind != 7) {
    const Chain b_end = read_chain(b);
    VF_CHECK(same_chain(b_end, before) && b.get_num_retained() == src_ret && b.get_theta() == src_theta, std::string(fam) + "|assignment|source-changed-by-updates-of-the-target", ctx() + " source now: " + b_end.to_string());
  }
  sig(mix64(mix64(0xa5 + pi, kind), mix64(a.get_num_retained(), static_cast<uint64_t>(a.get_theta() * 1e9))));
}

// ------------------------------------------------------------------ union programs with mixed inputs
struct Input { uint8_t lg_k; float p; int rf; uint64_t start, cnt; int form; int fill; };

static uint64_t covered(std::vector<std::pair<uint64_t, uint64_t>> iv) {   // size of the union of half-open key-index intervals
  std::sort(iv.begin(), iv.end());
  uint64_t tot = 0, end = 0;
  for (auto& x : iv) { if (x.second <= end) continue; tot += x.second - std::max(x.first, end); end = x.second; }
  return tot;
}

// Tuple unions only: an input offered through the theta->tuple adapter compact_tuple_sketch(theta_sketch, summary, ordered = true),
// built from an update_theta_sketch (form 3) or from its unordered compact form (form 4) over the same keys.
template<typename UN, typename IN> static bool offer_via_adapter(UN&, const IN&, uint64_t) { return false; }
template<typename IN> static bool offer_via_adapter(tuple_union<double>& u, const IN& x, uint64_t base) {
  auto ts = update_theta_sketch::builder().set_lg_k(x.lg_k).set_p(x.p).set_resize_factor(static_cast<resize_factor>(x.rf)).build();
  for (uint64_t j = 0; j < x.cnt; ++j) ts.update(bij(base + x.start + j));
  if (x.form == 3) { const compact_tuple_sketch<double> ad(ts, 1.0); check_ordered(ad, "tuple_from_theta_adapter", "adapter from update_theta_sketch"); u.update(ad); }
  else { const compact_theta_sketch ct = ts.compact(false); const compact_tuple_sketch<double> ad(ct, 1.0); check_ordered(ad, "tuple_from_theta_adapter", "adapter from unordered compact_theta_sketch"); u.update(ad); }
  count("sk_union_program_inputs_via_theta_adapter");
  return true;
}

template<typename SK, typename UN, typename MK, typename MKU, typename UPD>
static void union_program(Rng& r, bool T, const char* ufam, MK make, MKU make_union, UPD upd) {
  const uint8_t U = static_cast<uint8_t>(r.range(5, T ? 12 : 11));
  const uint64_t kU = 1ULL << U;
  const int urf = static_cast<int>(r.below(4));
  const uint64_t base = r.next();
  const uint64_t cap = T ? 300000 : 50000;
  static const float ps[] = {1.0f, 1.0f, 1.0f, 0.5f, 0.1f};
  std::vector<Input> in;
  const bool directed = r.chance(0.25);
  if (directed) {
    // an exact input that leaves more than k (but fewer than 15k/8) entries in the union table, then a deeply sampled coarser one
    Input a; a.lg_k = static_cast<uint8_t>(std::min<int>(13, U + static_cast<int>(r.range(1, 2)))); a.p = 1.0f; a.rf = static_cast<int>(r.below(4));
    a.start = 0; a.cnt = kU + 1 + r.below(kU * 7 / 8 - 1); a.form = static_cast<int>(r.below(5)); a.fill = 1;
    Input b; b.lg_k = static_cast<uint8_t>(std::max<int>(5, U - static_cast<int>(r.range(0, 3)))); b.p = ps[r.below(5)]; b.rf = static_cast<int>(r.below(4));
    b.cnt = std::min<uint64_t>(cap, (16ULL << b.lg_k) + r.below(48ULL << b.lg_k)); b.start = r.below(a.cnt + 1); b.form = static_cast<int>(r.below(5)); b.fill = 3;
    in.push_back(a); in.push_back(b);
    if (r.coin()) { Input c2 = a; c2.start = r.below(b.start + b.cnt); c2.cnt = 1 + r.below(kU); c2.fill = 0; in.push_back(c2); }
    count("sk_union_program_directed_overfull_then_low_theta");
  } else {
    const int nin = static_cast<int>(r.range(2, 4));
    uint64_t span = 0;
    for (int i = 0; i < nin; ++i) {
      Input x; x.lg_k = static_cast<uint8_t>(std::max<int>(5, std::min<int>(13, U + static_cast<int>(r.range(-2, 3)))));
      x.p = ps[r.below(5)]; x.rf = static_cast<int>(r.below(4)); x.form = static_cast<int>(r.below(5)); x.fill = static_cast<int>(r.below(4));
      const uint64_t k = 1ULL << x.lg_k;
      switch (x.fill) {
        case 0: x.cnt = 1 + r.below(k / 2); break;                          // exact, small
        case 1: x.cnt = k + r.below(k * 7 / 8); break;                      // exact, table above nominal size
        case 2: x.cnt = 2 * k + r.below(6 * k); break;                      // estimation
        default: x.cnt = 16 * k + r.below(48 * k); break;                   // deep estimation
      }
      x.cnt = std::min(x.cnt, cap);
      x.start = r.below(span + 1);                                           // heavy overlap with what is already covered
      span = std::max(span, x.start + x.cnt);
      in.push_back(x);
    }
    const int order = static_cast<int>(r.below(3));
    if (order == 1) std::stable_sort(in.begin(), in.end(), [](const Input& a, const Input& b) { return a.lg_k > b.lg_k; });
    if (order == 2) std::stable_sort(in.begin(), in.end(), [](const Input& a, const Input& b) { return a.lg_k < b.lg_k; });
    count(order == 0 ? "sk_union_program_order_generated" : (order == 1 ? "sk_union_program_order_larger_lg_k_first" : "sk_union_program_order_larger_lg_k_last"));
  }
  std::string d;
  for (auto& x : in) d += " [lg_k=" + std::to_string(x.lg_k) + " p=" + str(x.p) + " rf=" + std::to_string(x.rf) + " keys=" + std::to_string(x.start) + "+" + std::to_string(x.cnt) + " form=" + std::to_string(x.form) + "]";
  describe(std::string(ufam) + " program union_lg_k=" + std::to_string(U) + " union_rf=" + std::to_string(urf) + " directed=" + std::to_string(directed) + " inputs:" + d + " keybase=" + std::to_string(base));
  UN u = make_union(U, urf);
  std::vector<std::pair<uint64_t, uint64_t>> iv;
  bool all_p1 = true;
  for (size_t i = 0; i < in.size(); ++i) {
    const Input& x = in[i];
    if (!(x.form >= 3 && offer_via_adapter(u, x, base))) {
      SK sk = make(x.lg_k, x.p, x.rf);
      for (uint64_t j = 0; j < x.cnt; ++j) upd(sk, bij(base + x.start + j));
      const int form = x.form % 3;
      if (form == 0) u.update(sk); else { const auto cs = sk.compact(form == 1); check_ordered(cs, ufam, "compact input"); u.update(cs); }
    }
    iv.push_back({x.start, x.start + x.cnt});
    all_p1 = all_p1 && x.p == 1.0f && x.cnt <= (1ULL << x.lg_k);   // every input unsampled and within its own nominal size
    count(std::string("sk_union_program_input_fill") + std::to_string(x.fill));
    if (i + 1 < in.size() && r.coin()) continue;       // read the result after this step only sometimes (a read-out must not be needed)
    const uint64_t n = covered(iv);
    const auto res = u.get_result(r.coin());
    check_ordered(res, ufam, "union result");
    const Chain ch = read_chain(res);
    auto ctx = [&] { return "after input " + std::to_string(i + 1) + " true distinct=" + std::to_string(n) + " retained=" + std::to_string(res.get_num_retained()) + " theta=" + str(res.get_theta()); };
    check_chain_lazy(ch, ufam, ctx);
    if (!res.is_estimation_mode()) VF_CHECK(ch.est == static_cast<double>(n), std::string(ufam) + "|exact-mode|estimate-not-n", ctx() + " " + ch.to_string());
    if (all_p1 && n <= kU) VF_CHECK(!res.is_estimation_mode() && ch.est == static_cast<double>(n), std::string(ufam) + "|n<=k-without-sampling|not-exact", ctx() + " " + ch.to_string());
    const double sigma = std::max(ch.est - ch.lb[1], ch.ub[1] - ch.est), dn = static_cast<double>(n);
    VF_CHECK(std::fabs(ch.est - dn) <= 8.0 * sigma + 10.0, std::string(ufam) + "|mixed-inputs|true-count-beyond-8-published-std-devs-of-estimate", ctx() + " sigma=" + str(sigma) + " " + ch.to_string());
    count(std::string("sk_") + ufam + "_program_readouts");
    sig(mix64(mix64(0x70 + U, res.get_num_retained()), static_cast<uint64_t>(res.get_theta() * 1e9)));
  }
  count(std::string("sk_") + ufam + "_programs");
}

void run_case(uint64_t idx, Rng& r) {
  (void)idx;
  seed_order(r);
  const bool T = G().thorough();
  if (r.chance(0.15)) {
    g_special_mod = 1ULL << 62;
    switch (r.below(3)) {
      case 0:
        assign_program<update_theta_sketch>(r, T, "theta",
          [](uint8_t lg, float p, int rf) { return update_theta_sketch::builder().set_lg_k(lg).set_p(p).set_resize_factor(static_cast<resize_factor>(rf)).build(); },
          [](update_theta_sketch& s, uint64_t key) { s.update(key); });
        break;
      case 1:
        assign_program<update_tuple_sketch<double>>(r, T, "tuple",
          [](uint8_t lg, float p, int rf) { return update_tuple_sketch<double>::builder().set_lg_k(lg).set_p(p).set_resize_factor(static_cast<resize_factor>(rf)).build(); },
          [](update_tuple_sketch<double>& s, uint64_t key) { s.update(key, 1.0); });
        break;
      default: {
        static const std::vector<double> one = {1.0};
        assign_program<update_array_of_doubles_sketch>(r, T, "aod",
          [](uint8_t lg, float p, int rf) { return update_array_of_doubles_sketch::builder(1).set_lg_k(lg).set_p(p).set_resize_factor(static_cast<resize_factor>(rf)).build(); },
          [](update_array_of_doubles_sketch& s, uint64_t key) { s.update(key, one); });
      }
    }
    if (want_sample()) sample("{\"config\":" + jstr(G().cur_desc) + "}");
    return;
  }
  if (r.chance(0.25)) {
    if (r.coin()) {
      union_program<update_theta_sketch, theta_union>(r, T, "theta_union",
        [](uint8_t lg, float p, int rf) { return update_theta_sketch::builder().set_lg_k(lg).set_p(p).set_resize_factor(static_cast<resize_factor>(rf)).build(); },
        [](uint8_t lg, int rf) { return theta_union::builder().set_lg_k(lg).set_resize_factor(static_cast<resize_factor>(rf)).build(); },
        [](update_theta_sketch& s, uint64_t key) { s.update(key); });
    } else {
      typedef update_tuple_sketch<double> TS;
      union_program<TS, tuple_union<double>>(r, T, "tuple_union",
        [](uint8_t lg, float p, int rf) { return TS::builder().set_lg_k(lg).set_p(p).set_resize_factor(static_cast<resize_factor>(rf)).build(); },
        [](uint8_t lg, int rf) { return tuple_union<double>::builder().set_lg_k(lg).set_resize_factor(static_cast<resize_factor>(rf)).build(); },
        [](TS& s, uint64_t key) { s.update(key, 1.0); });
    }
    if (want_sample()) sample("{\"config\":" + jstr(G().cur_desc) + "}");
    return;
  }
  Cfg c;
  c.reuse = r.chance(0.3);
  c.tuple = r.coin();
  c.lg_k = static_cast<uint8_t>(r.range(5, T ? 13 : 11));
  static const float ps[] = {1.0f, 1.0f, 1.0f, 0.5f, 0.5f, 0.9f, 0.1f};
  c.p = ps[r.below(7)];
  c.rf = static_cast<int>(r.below(4));
  const uint64_t k = 1ULL << c.lg_k;
  const uint64_t cap = T ? 400000 : 60000;
  // cardinality: log-uniform from 1 to min(64k, cap), one third of the cases end near k..2k
  const double hi = static_cast<double>(std::min<uint64_t>(64 * k, cap));
  c.nmax = r.chance(0.33) ? k / 2 + r.below(2 * k) : static_cast<uint64_t>(std::exp(r.unit() * std::log(hi)));
  if (c.nmax < 1) c.nmax = 1;
  c.parts = static_cast<int>(r.range(2, 3));
  c.overlap = r.chance(0.5) ? 0.0 : 0.3;
  c.base = r.next();
  c.step = 1.02 + 0.2 * r.unit();
  { static const uint64_t mods[] = {1, 2, 17, 300, 5000, 100000, 1ULL << 62}; g_special_mod = mods[r.below(7)]; }
  describe(std::string(c.tuple ? "tuple" : "theta") + " lg_k=" + std::to_string(c.lg_k) + " p=" + str(c.p) + " rf=" + std::to_string(c.rf) + " n=" + std::to_string(c.nmax) +
           " parts=" + std::to_string(c.parts) + " overlap=" + str(c.overlap) + " reuse_after_reset=" + std::to_string(c.reuse) + " special_mod=" + std::to_string(g_special_mod) + " keybase=" + std::to_string(c.base));
  if (!c.tuple) {
    stream<update_theta_sketch, theta_union>(c, r, "theta", "theta_union",
      [&] { return update_theta_sketch::builder().set_lg_k(c.lg_k).set_p(c.p).set_resize_factor(static_cast<resize_factor>(c.rf)).build(); },
      [&] { return theta_union::builder().set_lg_k(c.lg_k).set_resize_factor(static_cast<resize_factor>(c.rf)).build(); },
      [](update_theta_sketch& s, uint64_t key) { s.update(key); });
  } else {
    typedef update_tuple_sketch<double> TS;
    stream<TS, tuple_union<double>>(c, r, "tuple", "tuple_union",
      [&] { return TS::builder().set_lg_k(c.lg_k).set_p(c.p).set_resize_factor(static_cast<resize_factor>(c.rf)).build(); },
      [&] { return tuple_union<double>::builder().set_lg_k(c.lg_k).set_resize_factor(static_cast<resize_factor>(c.rf)).build(); },
      [](TS& s, uint64_t key) { s.update(key, is_special(key) ? 3.0 : 1.0); });
  }
  if (want_sample()) sample("{\"config\":" + jstr(G().cur_desc) + "}");
}

} // namespace vf
