// C07 (KLL part) — kll_sketch conserves weight, keeps exact extremes and answers coherently over random
// merge trees.  Oracle and case driver: vf/c07_quantiles_oracle.hpp.
#include "vf/core.hpp"
#include "vf/c07_quantiles_oracle.hpp"
#include <kll_sketch.hpp>

using namespace datasketches;
namespace vf {

const char* property_id() { return "C07"; }
unsigned case_timeout_s() { return 300; }
uint64_t num_cases(bool thorough) { return c07::cases_per_type(thorough) * c07::num_types(); }   // item types round-robin
void final_report() {}

struct KllFam {
  static const char* name() { return "kll"; }
  template<typename K> using SK = kll_sketch<typename c07::Tr<K>::T, typename c07::Tr<K>::Cmp>;
  struct Cfg {};
  static Cfg cfg(Rng&) { return Cfg(); }
  static std::string cfg_str(const Cfg&) { return "kll"; }
  static uint32_t pick_k(Rng& r, bool thorough) {
    static const uint32_t ks[] = {8, 8, 8, 8, 9, 10, 11, 12, 16, 20, 25, 32, 50, 64, 100, 200};
    if (thorough && r.chance(0.1)) return r.pick({400u, 1000u, 3000u});
    return ks[r.below(sizeof ks / sizeof ks[0])];
  }
  template<typename K> static SK<K> make(uint32_t k, const Cfg&, const typename c07::Tr<K>::Cmp& cmp) { return SK<K>(static_cast<uint16_t>(k), cmp); }
  template<typename K> static SK<K> roundtrip(const SK<K>& sk, const typename c07::Tr<K>::Cmp& cmp, bool stream) {
    typedef typename c07::Tr<K>::T T;
    if (stream) {
      std::stringstream ss(std::ios::in | std::ios::out | std::ios::binary);
      sk.serialize(ss);
      return SK<K>::deserialize(ss, serde<T>(), cmp);
    }
    const auto bytes = sk.serialize();
    return SK<K>::deserialize(bytes.data(), bytes.size(), serde<T>(), cmp);
  }

  static const bool self_merge_ok = true;
  // KLL keeps no empty-level pattern that is a function of (k, n); count estimating sources
  static bool convert_gap(uint32_t k, uint64_t n) { return n > k; }
  static uint32_t large_k(bool mx) { return mx ? 65535 : 40000; }
  template<typename K> static int level0_unsorted(const SK<K>& sk) {
    const auto s = sk.to_string(false, false);
    const std::string text(s.begin(), s.end());
    if (text.find("Sorted         : false") != std::string::npos) return 1;
    if (text.find("Sorted         : true") != std::string::npos) return 0;
    return -1;
  }
  static uint64_t exact_cap(uint32_t k) { return k; }

  // stated space bound: get_max_serialized_size_bytes(k, n) "is an overestimate to make sure actual sketches
  // don't exceed it"; it is 20 + 4*L + (max_retained + 2) * item_size with L = 1 + floor(log2 n)
  template<typename K, typename std::enable_if<std::is_arithmetic<typename c07::Tr<K>::T>::value, int>::type = 0>
  static uint64_t max_retained(uint16_t k, uint64_t n, uint32_t L) {
    const size_t mx = SK<K>::get_max_serialized_size_bytes(k, n);
    return (mx - 20 - 4 * L) / sizeof(typename c07::Tr<K>::T) - 2;
  }
  template<typename K, typename std::enable_if<!std::is_arithmetic<typename c07::Tr<K>::T>::value, int>::type = 0>
  static uint64_t max_retained(uint16_t k, uint64_t n, uint32_t L) {
    const size_t mx = SK<K>::get_max_serialized_size_bytes(k, n, static_cast<size_t>(1));
    return mx - 20 - 4 * L - 2;
  }
  template<typename K, typename std::enable_if<std::is_arithmetic<typename c07::Tr<K>::T>::value, int>::type = 0>
  static void size_bound(const SK<K>& sk, uint64_t n, const std::string& ctx) {
    const size_t actual = sk.get_serialized_size_bytes();
    const size_t mx = SK<K>::get_max_serialized_size_bytes(sk.get_k(), n);
    VF_CHECK(actual <= mx, "kll|space-bound|serialized-size-above-stated-max", ctx + " size=" + std::to_string(actual) + " max=" + std::to_string(mx));
  }
  template<typename K, typename std::enable_if<!std::is_arithmetic<typename c07::Tr<K>::T>::value, int>::type = 0>
  static void size_bound(const SK<K>&, uint64_t, const std::string&) {}

  template<typename K> static void bound(const SK<K>& sk, uint32_t retained, uint64_t n, const std::string& ctx) {
    const uint32_t L = n == 0 ? 1 : 1 + c07::floor_log2(n);
    const uint64_t cap = max_retained<K>(sk.get_k(), n, L);
    VF_CHECK(retained <= cap, "kll|space-bound|retained-above-stated-max", ctx + " max_retained=" + std::to_string(cap));
    size_bound<K>(sk, n, ctx);
  }
  template<typename T> static void counters(const SK<T>&, const c07::Observed& o, bool after_merge) {
    if (o.empty) return;
    if (after_merge && o.est && o.min_weight > 1) count("kll_level0_empty_after_merge");
    if (!after_merge && o.est && o.min_weight > 1) count("kll_level0_empty_after_updates");
    if (o.distinct_weights >= 3) count("kll_three_or_more_levels");
    if (o.est) count("kll_obs_estimation_mode");
  }
};

void run_case(uint64_t idx, Rng& r) { c07::run_case_any<KllFam>(idx, r); }

} // namespace vf
