// C19 — value semantics / every byte returned: KLL sketch with instrumented items and tracked-allocator strings
#include "vf/c19_quant.hpp"
#include <kll_sketch.hpp>

using namespace datasketches;
namespace vf {
const char* property_id() { return "C19"; }
unsigned case_timeout_s() { return 120; }
uint64_t num_cases(bool thorough) { return 2 * (thorough ? 3000 : 160); }
void final_report() {}

template<typename T> struct KllMaker {
  typedef std::less<T> Cmp;
  typedef kll_sketch<T, Cmp, track_alloc<T>> Sk;
  static const char* fam() { return "kll"; }
  static uint16_t pick_k(Rng& r) { static const uint16_t ks[] = {8, 9, 12, 20, 64, 200}; return ks[r.below(6)]; }
  static void make(void* mem, uint16_t k, bool, Arena* a) { new (mem) Sk(k, Cmp(), track_alloc<T>(a)); }
  static std::string mode(const Sk& s) { return s.is_empty() ? "empty" : (s.is_estimation_mode() ? "multilevel" : "exact"); }
};

void run_case(uint64_t idx, Rng& r) {
  if (idx % 2 == 0) run_program<QuantFam<Item, KllMaker<Item>>>(r);
  else run_program<QuantFam<tstring, KllMaker<tstring>>>(r);
}
} // namespace vf
