// C06 (Monte-Carlo, Theta/Tuple) — bias, spread and interval coverage of the distinct-count estimate of
// update_theta_sketch (p = 1, p = 0.5), update_tuple_sketch<double>, theta_union and tuple_union results.
// One case = one (family, lg_k, cardinality) cell; all its trials run in this case; nothing is
// accumulated across cases.
#include "vf/core.hpp"
#include "vf/c06_common.hpp"
#include <theta_sketch.hpp>
#include <theta_union.hpp>
#include <tuple_sketch.hpp>
#include <tuple_union.hpp>
#include <memory>

using namespace datasketches;
namespace vf {
using namespace c06;

const char* property_id() { return "C06"; }
unsigned case_timeout_s() { return 1800; }

// *_union_mixed: an exact input of lg_k+1 holding min(n, 1.5k) keys (more than k entries in the union table) and a
//   coarser input (lg_k-2; p = 1 in theta_union_mixed, p = 0.5 in tuple_union_mixed) over the upper half of those keys and the rest; order alternates.
// tuple_filter: every 16th key carries summary 3.0 (others 1.0); the derived sketch filter(summary > 2) estimates that sub-population
//   (true count ceil(n/16)); odd trials filter the compact form.
// tuple_union_theta_adapter: input A (lg_k+1, keys [0, 0.6n)) is an update_theta_sketch (or its unordered compact form) offered through
//   compact_tuple_sketch(theta_sketch, summary, ordered = true); input B (lg_k-2, keys [0.4n, n)) is a tuple sketch; B first on even trials.
// *_reuse: the sketch (resize factor = trial mod 4) / the union object is first driven into estimation mode with 4k
//   unrelated keys, reset(), then used.
enum Fam { F_THETA_P1, F_THETA_P05, F_TUPLE, F_THETA_UNION, F_TUPLE_UNION, F_THETA_UNION_MIXED, F_TUPLE_UNION_MIXED, F_THETA_REUSE, F_TUPLE_REUSE, F_THETA_UNION_REUSE, F_TUPLE_FILTER, F_TUPLE_UNION_ADAPTER, F_N };
static const char* FAM_NAME[] = {"theta_p1", "theta_p05", "tuple", "theta_union", "tuple_union", "theta_union_mixed", "tuple_union_mixed", "theta_reuse", "tuple_reuse", "theta_union_reuse", "tuple_filter", "tuple_union_theta_adapter"};

static std::vector<Cell> build_cells(bool thorough) {
  std::vector<Cell> cells;
  struct Cfg { uint8_t lg_k; uint32_t trials; int max_mi; };
  std::vector<Cfg> cfgs;
  if (!thorough) cfgs = {{5, 300, NMULTS - 1}, {7, 300, NMULTS - 1}, {9, 200, NMULTS - 1}, {11, 200, NMULTS - 3}};
  else cfgs = {{5, 3000, NMULTS - 1}, {6, 3000, NMULTS - 1}, {7, 3000, NMULTS - 1}, {8, 3000, NMULTS - 1}, {9, 3000, NMULTS - 1},
               {10, 2000, NMULTS - 1}, {11, 1500, NMULTS - 1}, {12, 1000, NMULTS - 1}, {14, 600, NMULTS - 3}};
  // the mixed-union and reuse families run on a thinner grid
  std::vector<Cfg> thin;
  if (!thorough) thin = {{7, 300, NMULTS - 1}, {10, 200, NMULTS - 3}};
  else thin = {{6, 3000, NMULTS - 1}, {9, 3000, NMULTS - 1}, {12, 1000, NMULTS - 1}};
  static const bool THIN_MULT[NMULTS] = {false, true, false, true, false, true, false, true, true, false, true};   // k/8, k, 3k, 8k, 16k, 64k
  for (int f = 0; f < F_N; ++f)
    for (auto& c : (f >= F_THETA_UNION_MIXED ? thin : cfgs))
      for (int mi = 0; mi <= c.max_mi; ++mi) {
        if (f >= F_THETA_UNION_MIXED && !THIN_MULT[mi]) continue;
        Cell x; x.fam = f; x.lg_k = c.lg_k; x.mi = mi; x.trials = c.trials; x.n = cardinality(c.lg_k, mi);
        const bool uni = (f == F_THETA_UNION || f == F_TUPLE_UNION || f >= F_THETA_UNION_MIXED);
        x.cost = static_cast<double>(x.n) * x.trials * (uni ? 1.3 : 1.0) * (f == F_TUPLE || f == F_TUPLE_UNION ? 1.2 : 1.0) + 2000.0 * x.trials;
        cells.push_back(x);
      }
  order_cells(cells);
  return cells;
}
static const std::vector<Cell>& cells() { static std::vector<Cell> c = build_cells(G().thorough()); return c; }

uint64_t num_cases(bool thorough) { (void)thorough; return cells().size(); }
void final_report() {}

template<typename S> static Trial observe(const S& s, uint64_t n, const std::string& fam, const std::string& ctx, bool must_be_exact = false) {
  Trial t;
  t.c = read_chain(s);
  check_chain(t.c, fam, ctx);
  t.exact_class = !s.is_estimation_mode();
  // unsampled inputs within the nominal size: the count is exact
  if (must_be_exact) VF_CHECK(t.exact_class && t.c.est == static_cast<double>(n), fam + "|n<=k-without-sampling|not-exact", ctx + " n=" + std::to_string(n) + " theta=" + str(s.get_theta()) + " " + t.c.to_string());
  if (t.exact_class) {
    VF_CHECK(t.c.est == static_cast<double>(n), fam + "|exact-mode|estimate-not-n", ctx + " n=" + std::to_string(n) + " " + t.c.to_string());
    VF_CHECK(t.c.lb[3] == t.c.est && t.c.ub[3] == t.c.est, fam + "|exact-mode|bounds-not-equal-estimate", ctx + " " + t.c.to_string());
  }
  return t;
}

void run_case(uint64_t idx, Rng& r) {
  const Cell& cell = cells()[idx];
  const std::string fam = FAM_NAME[cell.fam];
  const uint64_t n = cell.n;
  const uint64_t base = r.next();
  seed_order(r);
  describe("mc family=" + fam + " lg_k=" + std::to_string(cell.lg_k) + " n=" + std::to_string(n) + " (" + std::to_string(MULTS[cell.mi].num) + "/" +
           std::to_string(MULTS[cell.mi].den) + " k) trials=" + std::to_string(cell.trials) + " keybase=" + std::to_string(base));
  std::vector<Trial> tr; tr.reserve(cell.trials);
  for (uint32_t t = 0; t < cell.trials; ++t) {
    const uint64_t kb = base + (static_cast<uint64_t>(t) << 32);
    const std::string ctx = "trial=" + std::to_string(t);
    auto key = [&](uint64_t i) { return bij(kb + i); };
    // union inputs: A gets keys [0, 0.6n), B gets keys [0.4n, n): 20% overlap, union = n distinct keys
    const uint64_t a_end = n - n * 2 / 5, b_begin = n * 2 / 5;
    switch (cell.fam) {
      case F_THETA_P1: case F_THETA_P05: {
        auto s = update_theta_sketch::builder().set_lg_k(cell.lg_k).set_p(cell.fam == F_THETA_P1 ? 1.0f : 0.5f).build();
        for (uint64_t i = 0; i < n; ++i) s.update(key(i));
        tr.push_back(observe(s, n, fam, ctx));
        if (t == 0) {   // compact form must report the same numbers
          const compact_theta_sketch c = s.compact();
          const Chain cc = read_chain(c);
          VF_CHECK(cc.est == tr.back().c.est && cc.lb[2] == tr.back().c.lb[2] && cc.ub[2] == tr.back().c.ub[2], fam + "|compact|estimate-or-bounds-differ", ctx);
        }
        break;
      }
      case F_TUPLE: {
        auto s = update_tuple_sketch<double>::builder().set_lg_k(cell.lg_k).build();
        for (uint64_t i = 0; i < n; ++i) s.update(key(i), 1.0);
        tr.push_back(observe(s, n, fam, ctx));
        break;
      }
      case F_THETA_UNION: {
        auto a = update_theta_sketch::builder().set_lg_k(cell.lg_k).build();
        auto b = update_theta_sketch::builder().set_lg_k(cell.lg_k).build();
        for (uint64_t i = 0; i < a_end; ++i) a.update(key(i));
        for (uint64_t i = b_begin; i < n; ++i) b.update(key(i));
        auto u = theta_union::builder().set_lg_k(cell.lg_k).build();
        u.update(a);
        if (t & 1) u.update(b.compact()); else u.update(b);
        const compact_theta_sketch res = u.get_result();
        tr.push_back(observe(res, n, fam, ctx));
        { const compact_theta_sketch res2 = u.get_result(); VF_CHECK(same_chain(read_chain(res2), tr.back().c), fam + "|get_result|second-result-differs-from-first", ctx); }
        break;
      }
      case F_TUPLE_UNION: {
        auto a = update_tuple_sketch<double>::builder().set_lg_k(cell.lg_k).build();
        auto b = update_tuple_sketch<double>::builder().set_lg_k(cell.lg_k).build();
        for (uint64_t i = 0; i < a_end; ++i) a.update(key(i), 1.0);
        for (uint64_t i = b_begin; i < n; ++i) b.update(key(i), 1.0);
        auto u = tuple_union<double>::builder().set_lg_k(cell.lg_k).build();
        u.update(a);
        if (t & 1) u.update(b.compact()); else u.update(b);
        const auto res = u.get_result();
        tr.push_back(observe(res, n, fam, ctx));
        { const auto res2 = u.get_result(); VF_CHECK(same_chain(read_chain(res2), tr.back().c), fam + "|get_result|second-result-differs-from-first", ctx); }
        break;
      }
      case F_THETA_UNION_MIXED: case F_TUPLE_UNION_MIXED: {
        const uint64_t kU = 1ULL << cell.lg_k;
        const uint64_t a_cnt = std::min<uint64_t>(n, kU + kU / 2), bb = a_cnt / 2;
        const uint8_t lgA = static_cast<uint8_t>(cell.lg_k + 1), lgB = static_cast<uint8_t>(std::max<int>(5, cell.lg_k - 2));
        const float pB = cell.fam == F_TUPLE_UNION_MIXED ? 0.5f : 1.0f;   // fixed per family: one error law per cell
        if (cell.fam == F_THETA_UNION_MIXED) {
          auto a = update_theta_sketch::builder().set_lg_k(lgA).build();
          auto b = update_theta_sketch::builder().set_lg_k(lgB).set_p(pB).build();
          for (uint64_t i = 0; i < a_cnt; ++i) a.update(key(i));
          for (uint64_t i = bb; i < n; ++i) b.update(key(i));
          auto u = theta_union::builder().set_lg_k(cell.lg_k).build();
          if (t & 1) { u.update(b.compact()); u.update(a); } else { u.update(a); u.update(b.compact((t & 2) != 0)); }
          tr.push_back(observe(u.get_result(), n, fam, ctx));
        } else {
          auto a = update_tuple_sketch<double>::builder().set_lg_k(lgA).build();
          auto b = update_tuple_sketch<double>::builder().set_lg_k(lgB).set_p(pB).build();
          for (uint64_t i = 0; i < a_cnt; ++i) a.update(key(i), 1.0);
          for (uint64_t i = bb; i < n; ++i) b.update(key(i), 1.0);
          auto u = tuple_union<double>::builder().set_lg_k(cell.lg_k).build();
          if (t & 1) { u.update(b.compact()); u.update(a); } else { u.update(a); u.update(b.compact((t & 2) != 0)); }
          tr.push_back(observe(u.get_result(), n, fam, ctx));
        }
        break;
      }
      case F_THETA_REUSE: {
        auto s = update_theta_sketch::builder().set_lg_k(cell.lg_k).set_resize_factor(static_cast<resize_factor>(t & 3)).build();
        for (uint64_t j = 0; j < (4ULL << cell.lg_k); ++j) s.update(bij(~kb + j));
        s.reset();
        for (uint64_t i = 0; i < n; ++i) s.update(key(i));
        tr.push_back(observe(s, n, fam, ctx + " rf=" + std::to_string(t & 3), n <= (1ULL << cell.lg_k)));
        break;
      }
      case F_TUPLE_REUSE: {
        auto s = update_tuple_sketch<double>::builder().set_lg_k(cell.lg_k).set_resize_factor(static_cast<resize_factor>(t & 3)).build();
        for (uint64_t j = 0; j < (4ULL << cell.lg_k); ++j) s.update(bij(~kb + j), 1.0);
        s.reset();
        for (uint64_t i = 0; i < n; ++i) s.update(key(i), 1.0);
        tr.push_back(observe(s, n, fam, ctx + " rf=" + std::to_string(t & 3), n <= (1ULL << cell.lg_k)));
        break;
      }
      case F_TUPLE_UNION_ADAPTER: {
        auto a = update_theta_sketch::builder().set_lg_k(static_cast<uint8_t>(cell.lg_k + 1)).build();
        auto b = update_tuple_sketch<double>::builder().set_lg_k(static_cast<uint8_t>(std::max<int>(5, cell.lg_k - 2))).build();
        for (uint64_t i = 0; i < a_end; ++i) a.update(key(i));
        for (uint64_t i = b_begin; i < n; ++i) b.update(key(i), 1.0);
        auto u = tuple_union<double>::builder().set_lg_k(cell.lg_k).build();
        auto offer_a = [&] { if (t & 2) { const compact_theta_sketch ca = a.compact(false); u.update(compact_tuple_sketch<double>(ca, 1.0)); } else u.update(compact_tuple_sketch<double>(a, 1.0)); };
        if (t & 1) { offer_a(); u.update(b); } else { u.update(b); offer_a(); }
        tr.push_back(observe(u.get_result(), n, fam, ctx));
        break;
      }
      case F_TUPLE_FILTER: {
        auto s = update_tuple_sketch<double>::builder().set_lg_k(cell.lg_k).build();
        for (uint64_t i = 0; i < n; ++i) s.update(key(i), (i & 15) == 0 ? 3.0 : 1.0);
        auto pred = [](const double& v) { return v > 2.0; };
        if (t & 1) tr.push_back(observe(s.compact().filter(pred), (n + 15) / 16, fam, ctx)); else tr.push_back(observe(s.filter(pred), (n + 15) / 16, fam, ctx));
        break;
      }
      case F_THETA_UNION_REUSE: {
        static thread_local std::unique_ptr<theta_union> persistent;     // one union object for all trials of the cell
        if (t == 0) persistent.reset(new theta_union(theta_union::builder().set_lg_k(cell.lg_k).set_resize_factor(static_cast<resize_factor>(idx & 3)).build()));
        theta_union& u = *persistent;
        auto junk = update_theta_sketch::builder().set_lg_k(cell.lg_k).build();
        for (uint64_t j = 0; j < (4ULL << cell.lg_k); ++j) junk.update(bij(~kb + j));
        u.update(junk);
        u.reset();
        auto a = update_theta_sketch::builder().set_lg_k(cell.lg_k).build();
        auto b = update_theta_sketch::builder().set_lg_k(cell.lg_k).build();
        for (uint64_t i = 0; i < a_end; ++i) a.update(key(i));
        for (uint64_t i = b_begin; i < n; ++i) b.update(key(i));
        u.update(a);
        if (t & 1) u.update(b.compact()); else u.update(b);
        tr.push_back(observe(u.get_result(), n, fam, ctx + " union_rf=" + std::to_string(idx & 3), n <= (1ULL << cell.lg_k)));
        if (t + 1 == cell.trials) persistent.reset();
        break;
      }
      default: break;
    }
  }
  // published relative standard error: half-width of the sketch's own 1-sigma interval / estimate
  double hw = 0, es = 0; bool all_exact = true;
  for (auto& t : tr) { hw += 0.5 * (t.c.ub[1] - t.c.lb[1]); es += t.c.est; all_exact = all_exact && t.exact_class; }
  const double rse = es > 0 ? hw / es : 0.0;
  const std::string ctx = "family=" + fam + " lg_k=" + std::to_string(cell.lg_k) + " n=" + std::to_string(n);
  const uint64_t n_truth = cell.fam == F_TUPLE_FILTER ? (n + 15) / 16 : n;
  const CellResult R = check_cell(tr, n_truth, rse, fam, ctx, true, true);
  count("mc_cells");
  count("mc_trials", cell.trials);
  count(std::string("mc_") + fam + "_" + (all_exact ? "exact" : range_class(cell.lg_k, n)));
  sig(mix64(mix64(cell.fam, cell.lg_k), mix64(n, dbits(std::floor(R.sd * 1e12)))));
  if (want_sample()) sample("{\"cell\":" + jstr(ctx) + ",\"trials\":" + std::to_string(cell.trials) + ",\"result\":" + jstr(R.to_string()) + "}");
}

} // namespace vf
