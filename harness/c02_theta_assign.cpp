// C02 — Theta set operations return the exact set expression over the hash samples.
// Unit C: histories that include *assignment* of whole theta_union / theta_intersection (and theta_a_not_b)
// objects.  A pool of union and intersection objects is driven by a random op sequence: update with a random
// input in a random physical form, get_result, reset, and at random points copy-assign / move-assign from a
// fresh object (same or different lg_k / p / seed), from a temporary, from a used object of the pool, and
// self copy-assignment through a reference.  After an assignment the model of the destination is the model of
// the source (a fresh source = "no inputs yet"); the usual clauses then apply to every later update and
// get_result (theta = min of the input thetas and the union's own, exactly the hashes below it, independent of
// order and physical form).  After a copy-assignment the source must read out unchanged.
#include "vf/c02_family.hpp"

namespace vf {

const char* property_id() { return "C02"; }
unsigned case_timeout_s() { return 300; }
uint64_t num_cases(bool thorough) { return thorough ? 16000 : 1200; }
void final_report() {}

struct UCfg { uint8_t lg_k; float p; int rf; uint64_t seed; };
struct USlot { theta_union u; UCfg c; std::vector<const State*> seen; std::string hist; const char* last_asg; };
struct ISlot { theta_intersection i; uint64_t seed; bool valid; std::vector<const State*> seen; std::string hist; const char* last_asg; };

static theta_union mk_union(const UCfg& c) {
  return theta_union::builder().set_lg_k(c.lg_k).set_p(c.p).set_resize_factor(static_cast<theta_union::resize_factor>(c.rf)).set_seed(c.seed).build();
}
static std::string cfg_str(const UCfg& c) {
  return "(lg_k=" + std::to_string(c.lg_k) + " p=" + str(c.p) + " rf=" + std::to_string(c.rf) + " seed=" + std::to_string(c.seed) + ")";
}

void run_case(uint64_t idx, Rng& r) {
  (void)idx;
  const bool T = G().thorough();
  Family fam;
  make_family(fam, r);
  const uint64_t seed = fam.seed; const int nin = fam.nin;
  std::vector<std::unique_ptr<Input>>& ins = fam.ins;
  const std::string& desc = fam.desc;
  uint64_t seed2 = seed + 1 + r.below(1000);
  while (ref_seed_hash(seed2) == ref_seed_hash(seed)) ++seed2;

  static const float pus[] = {1.0f, 1.0f, 1.0f, 1.0f, 1.0f, 0.5f, 0.1f, 0.9f};
  auto rand_cfg = [&]() {
    UCfg c;
    c.lg_k = static_cast<uint8_t>(r.chance(0.65) ? r.range(5, 6) : r.range(5, fam.big ? 13 : (T ? 10 : 8)));
    c.p = pus[r.below(8)];
    c.rf = static_cast<int>(r.below(4));
    c.seed = r.chance(0.88) ? seed : seed2;
    return c;
  };

  // ------------------------------------------------------------ observation of one slot against its model
  auto dest_info_u = [&](const USlot& s, bool* theta_lt_max, bool* rebuilt) {
    uint64_t presize = 0;
    State m = model_union(s.seen, theta0_of(s.c.p), 1ULL << s.c.lg_k, &presize);
    *theta_lt_max = !m.empty && m.theta < MAXT;
    *rebuilt = presize > (15ULL << s.c.lg_k) / 8;   // more candidates than the table holds: it was rebuilt, its theta is a hash
  };
  auto check_u = [&](USlot& s, const std::string& kp, const std::string& what) {
    State m = model_union(s.seen, theta0_of(s.c.p), 1ULL << s.c.lg_k);
    const bool oreq = r.coin();
    check_result(s.u.get_result(oreq), m, oreq, kp, desc + " union" + cfg_str(s.c) + " history=[" + s.hist + "] at=" + what, s.c.seed, m.empty, MAXT);
    sig(mix64(mix64(m.theta, m.ent.size()), mix64(s.c.lg_k, s.seen.size() * 131 + 7)));
  };
  auto check_i = [&](ISlot& s, const std::string& kp, const std::string& what) {
    const std::string ctx = desc + " intersection(seed=" + std::to_string(s.seed) + ") history=[" + s.hist + "] at=" + what;
    if (!s.valid) {
      VF_CHECK(!s.i.has_result(), kp + "|has_result-without-input", ctx);
      VF_CHECK(throws([&] { s.i.get_result(r.coin()); }), kp + "|get_result-without-input-does-not-throw", ctx);
      count("asg_inter_observed_without_input");
      return;
    }
    VF_CHECK(s.i.has_result(), kp + "|has_result-false-with-input", ctx);
    State m = model_inter(s.seen);
    const bool oreq = r.coin();
    check_result(s.i.get_result(oreq), m, oreq, kp, ctx, s.seed);
    sig(mix64(mix64(m.theta, m.ent.size()), mix64(91, s.seen.size())));
  };
  auto ukp = [&](const USlot& s) { return s.last_asg ? std::string("union|after-") + s.last_asg : std::string("union|stateful"); };
  auto ikp = [&](const ISlot& s) { return s.last_asg ? std::string("intersection|after-") + s.last_asg : std::string("intersection|stateful"); };

  // ------------------------------------------------------------ pools
  std::vector<USlot> us; std::vector<ISlot> is;
  const int nu = 2 + static_cast<int>(r.below(2)), ni = 2 + static_cast<int>(r.below(2));
  us.reserve(nu); is.reserve(ni);
  for (int k = 0; k < nu; ++k) { UCfg c = rand_cfg(); if (k == 0) c.seed = seed; us.push_back(USlot{mk_union(c), c, {}, "new" + cfg_str(c) + " ", nullptr}); }
  for (int k = 0; k < ni; ++k) { const uint64_t sd = (k == 0 || r.chance(0.88)) ? seed : seed2; is.push_back(ISlot{theta_intersection(sd), sd, false, {}, "new(seed=" + std::to_string(sd) + ") ", nullptr}); }

  auto update_u = [&](USlot& s) {
    const int j = static_cast<int>(r.below(nin)), fm = static_cast<int>(r.below(F_N));
    const Input& in = *ins[j];
    const std::string opn = std::to_string(j) + ":" + form_name[fm];
    if (s.c.seed != seed && !in.st.empty) {
      bool th = false;
      with_form(in, fm, [&](const auto& sk) { th = throws([&] { s.u.update(sk); }); });
      VF_CHECK(th, "union|seed-mismatch-accepted", desc + " union" + cfg_str(s.c) + " history=[" + s.hist + "] input=" + opn);
      s.hist += "upd!" + opn + " ";
      count("asg_union_seed_mismatch_throw");
    } else {
      with_form(in, fm, [&](const auto& sk) { s.u.update(sk); });
      s.seen.push_back(&in.st);
      s.hist += "upd" + opn + " ";
      if (s.last_asg) count(std::string("asg|u|update-after|") + s.last_asg);
    }
    check_u(s, ukp(s), "update " + opn);
  };
  auto update_i = [&](ISlot& s) {
    const int j = static_cast<int>(r.below(nin)), fm = static_cast<int>(r.below(F_N));
    const Input& in = *ins[j];
    const std::string opn = std::to_string(j) + ":" + form_name[fm];
    if (s.seed != seed && !in.st.empty) {
      bool any_empty = false; for (auto* st : s.seen) any_empty |= st->empty;
      if (any_empty) return;   // an already empty intersection ignores further inputs: nothing specified about the seed there
      bool th = false;
      with_form(in, fm, [&](const auto& sk) { th = throws([&] { s.i.update(sk); }); });
      VF_CHECK(th, "intersection|seed-mismatch-accepted", desc + " intersection history=[" + s.hist + "] input=" + opn);
      s.hist += "upd!" + opn + " ";
      count("asg_inter_seed_mismatch_throw");
    } else {
      with_form(in, fm, [&](const auto& sk) { s.i.update(sk); });
      s.seen.push_back(&in.st); s.valid = true;
      s.hist += "upd" + opn + " ";
      if (s.last_asg) count(std::string("asg|i|update-after|") + s.last_asg);
    }
    check_i(s, ikp(s), "update " + opn);
  };

  // floors: kind of assignment x what the destination held before
  auto tally_u = [&](const char* kind, const USlot& dst) {
    bool lt = false, rb = false; dest_info_u(dst, &lt, &rb);
    count(std::string("asg|u|") + kind);
    if (lt) count(std::string("asg|u|") + kind + "|dest_theta_lt_max");
    if (rb) count(std::string("asg|u|") + kind + "|dest_table_rebuilt");
    if (dst.c.p < 1) count(std::string("asg|u|") + kind + "|dest_p_lt_1");
  };
  auto tally_i = [&](const char* kind, const ISlot& dst) {
    count(std::string("asg|i|") + kind);
    if (dst.valid) {
      State m = model_inter(dst.seen);
      if (!m.empty && m.theta < MAXT) count(std::string("asg|i|") + kind + "|dest_theta_lt_max");
      if (!m.ent.empty()) count(std::string("asg|i|") + kind + "|dest_had_entries");
    }
  };

  auto assign_u = [&]() {
    const size_t d = r.below(us.size());
    USlot& dst = us[d];
    switch (r.below(6)) {
      case 0: {   // copy-assign from a fresh named object with the same configuration
        UCfg c = dst.c; if (c.seed != seed && r.coin()) c.seed = seed;
        theta_union f = mk_union(c);
        tally_u("copy-fresh", dst);
        dst.u = f;
        dst.c = c; dst.seen.clear(); dst.last_asg = "copy-fresh"; dst.hist += "=copy(fresh" + cfg_str(c) + ") ";
        USlot fs{std::move(f), c, {}, "fresh source of copy-assignment", nullptr};
        check_u(fs, "union|copy-assign-source-changed", "source after copy-assign");
        break;
      }
      case 1: {   // move-assign from a temporary with the same configuration: u = builder.build()
        UCfg c = dst.c; if (c.seed != seed && r.coin()) c.seed = seed;
        tally_u("move-temp", dst);
        dst.u = mk_union(c);
        dst.c = c; dst.seen.clear(); dst.last_asg = "move-temp"; dst.hist += "=move(temp" + cfg_str(c) + ") ";
        break;
      }
      case 2: {   // copy- or move-assign from a fresh object with another configuration (lg_k / p / rf / seed)
        UCfg c = rand_cfg();
        if (r.coin()) {
          theta_union f = mk_union(c);
          tally_u("copy-fresh-other-config", dst);
          dst.u = f;
          dst.last_asg = "copy-fresh-other-config"; dst.hist += "=copy(fresh" + cfg_str(c) + ") ";
          USlot fs{std::move(f), c, {}, "fresh source of copy-assignment", nullptr};
          check_u(fs, "union|copy-assign-source-changed", "source after copy-assign");
        } else {
          tally_u("move-temp-other-config", dst);
          dst.u = mk_union(c);
          dst.last_asg = "move-temp-other-config"; dst.hist += "=move(temp" + cfg_str(c) + ") ";
        }
        dst.c = c; dst.seen.clear();
        break;
      }
      case 3: {   // copy-assign from a used object of the pool
        const size_t sidx = r.below(us.size());
        if (sidx == d) return;
        USlot& src = us[sidx];
        tally_u("copy-pool", dst);
        if (!src.seen.empty()) count("asg|u|copy-pool|source_used");
        dst.u = src.u;
        dst.c = src.c; dst.seen = src.seen; dst.last_asg = "copy-pool"; dst.hist = src.hist + "=>copy-assigned-to-slot" + std::to_string(d) + " ";
        check_u(src, "union|copy-assign-source-changed", "source after copy-assign to slot " + std::to_string(d));
        break;
      }
      case 4: {   // move-assign from a used object of the pool; the moved-from object is then re-initialised by assignment
        const size_t sidx = r.below(us.size());
        if (sidx == d) return;
        USlot& src = us[sidx];
        tally_u("move-pool", dst);
        if (!src.seen.empty()) count("asg|u|move-pool|source_used");
        dst.u = std::move(src.u);
        dst.c = src.c; dst.seen = src.seen; dst.last_asg = "move-pool"; dst.hist = src.hist + "=>move-assigned-to-slot" + std::to_string(d) + " ";
        UCfg c = rand_cfg();
        src.u = mk_union(c);   // moved-from: only assigned to
        src.c = c; src.seen.clear(); src.last_asg = "move-temp-onto-moved-from"; src.hist = "moved-from =move(temp" + cfg_str(c) + ") ";
        count("asg|u|move-temp-onto-moved-from");
        check_u(src, ukp(src), "re-initialised moved-from");
        break;
      }
      default: {  // self copy-assignment through a reference
        theta_union& ref = dst.u;
        tally_u("self-copy", dst);
        dst.u = ref;
        dst.last_asg = "self-copy"; dst.hist += "=self ";
        break;
      }
    }
    check_u(dst, ukp(dst), "assignment");
  };

  auto assign_i = [&]() {
    const size_t d = r.below(is.size());
    ISlot& dst = is[d];
    switch (r.below(6)) {
      case 0: {
        const uint64_t sd = (dst.seed != seed && r.coin()) ? seed : dst.seed;
        theta_intersection f(sd);
        tally_i("copy-fresh", dst);
        dst.i = f;
        dst.seed = sd; dst.valid = false; dst.seen.clear(); dst.last_asg = "copy-fresh"; dst.hist += "=copy(fresh seed=" + std::to_string(sd) + ") ";
        ISlot fs{std::move(f), sd, false, {}, "fresh source of copy-assignment", nullptr};
        check_i(fs, "intersection|copy-assign-source-changed", "source after copy-assign");
        break;
      }
      case 1: {
        const uint64_t sd = (dst.seed != seed && r.coin()) ? seed : dst.seed;
        tally_i("move-temp", dst);
        dst.i = theta_intersection(sd);
        dst.seed = sd; dst.valid = false; dst.seen.clear(); dst.last_asg = "move-temp"; dst.hist += "=move(temp seed=" + std::to_string(sd) + ") ";
        break;
      }
      case 2: {   // other seed
        const uint64_t sd = dst.seed == seed ? (r.chance(0.3) ? seed2 : seed) : seed;
        if (r.coin()) {
          theta_intersection f(sd);
          tally_i("copy-fresh-other-config", dst);
          dst.i = f;
          dst.last_asg = "copy-fresh-other-config";
          ISlot fs{std::move(f), sd, false, {}, "fresh source of copy-assignment", nullptr};
          check_i(fs, "intersection|copy-assign-source-changed", "source after copy-assign");
        } else {
          tally_i("move-temp-other-config", dst);
          dst.i = theta_intersection(sd);
          dst.last_asg = "move-temp-other-config";
        }
        dst.seed = sd; dst.valid = false; dst.seen.clear(); dst.hist += std::string("=") + dst.last_asg + "(seed=" + std::to_string(sd) + ") ";
        break;
      }
      case 3: {
        const size_t sidx = r.below(is.size());
        if (sidx == d) return;
        ISlot& src = is[sidx];
        tally_i("copy-pool", dst);
        if (src.valid) count("asg|i|copy-pool|source_used");
        dst.i = src.i;
        dst.seed = src.seed; dst.valid = src.valid; dst.seen = src.seen; dst.last_asg = "copy-pool"; dst.hist = src.hist + "=>copy-assigned-to-slot" + std::to_string(d) + " ";
        check_i(src, "intersection|copy-assign-source-changed", "source after copy-assign to slot " + std::to_string(d));
        break;
      }
      case 4: {
        const size_t sidx = r.below(is.size());
        if (sidx == d) return;
        ISlot& src = is[sidx];
        tally_i("move-pool", dst);
        if (src.valid) count("asg|i|move-pool|source_used");
        dst.i = std::move(src.i);
        dst.seed = src.seed; dst.valid = src.valid; dst.seen = src.seen; dst.last_asg = "move-pool"; dst.hist = src.hist + "=>move-assigned-to-slot" + std::to_string(d) + " ";
        const uint64_t sd = r.chance(0.88) ? seed : seed2;
        src.i = theta_intersection(sd);
        src.seed = sd; src.valid = false; src.seen.clear(); src.last_asg = "move-temp-onto-moved-from"; src.hist = "moved-from =move(temp seed=" + std::to_string(sd) + ") ";
        count("asg|i|move-temp-onto-moved-from");
        check_i(src, ikp(src), "re-initialised moved-from");
        break;
      }
      default: {
        theta_intersection& ref = dst.i;
        tally_i("self-copy", dst);
        dst.i = ref;
        dst.last_asg = "self-copy"; dst.hist += "=self ";
        break;
      }
    }
    check_i(dst, ikp(dst), "assignment");
  };

  // ------------------------------------------------------------ the op sequence
  const int nsteps = 12 + static_cast<int>(r.below(fam.big ? 8 : 30));
  for (int step = 0; step < nsteps; ++step) {
    const uint64_t op = r.below(100);
    if (op < 34) update_u(us[r.below(us.size())]);
    else if (op < 66) update_i(is[r.below(is.size())]);
    else if (op < 80) assign_u();
    else if (op < 94) assign_i();
    else if (op < 97) {
      USlot& s = us[r.below(us.size())];
      bool lt = false, rb = false; dest_info_u(s, &lt, &rb);
      s.u.reset(); s.seen.clear(); s.hist += "reset ";
      count("asg_union_reset"); if (rb) count("asg_union_reset_after_rebuild");
      check_u(s, ukp(s) + "|reset", "reset");
    } else {
      // present the whole family to one union and one intersection in a random order / forms (order independence after assignment)
      USlot& s = us[r.below(us.size())];
      if (s.c.seed == seed) {
        std::vector<int> p(nin); for (int k = 0; k < nin; ++k) p[k] = k; r.shuffle(p);
        for (int k : p) { const int fm = static_cast<int>(r.below(F_N)); with_form(*ins[k], fm, [&](const auto& sk) { s.u.update(sk); }); s.seen.push_back(&ins[k]->st); s.hist += "upd" + std::to_string(k) + ":" + form_name[fm] + " "; }
        check_u(s, ukp(s), "whole family");
        count("asg_union_whole_family");
      }
    }
  }
  for (auto& s : us) check_u(s, ukp(s), "end");
  for (auto& s : is) check_i(s, ikp(s), "end");

  // ------------------------------------------------------------ theta_a_not_b objects (state: the seed hash only)
  {
    theta_a_not_b x(seed2);
    const int a = static_cast<int>(r.below(nin)), b = static_cast<int>(r.below(nin));
    const int fa = static_cast<int>(r.below(F_N)), fb = static_cast<int>(r.below(F_N));
    const char* kind;
    if (r.coin()) { x = theta_a_not_b(seed); kind = "move-temp"; }
    else { theta_a_not_b y(seed); x = y; kind = "copy-fresh"; theta_a_not_b& ref = x; x = ref; }
    const bool oreq = r.coin();
    with_form2(*ins[a], fa, [&](const auto& sa) {
      with_form2(*ins[b], fb, [&](const auto& sb) {
        check_result(x.compute(sa, sb, oreq), model_anotb(ins[a]->st, ins[b]->st), oreq, std::string("a_not_b|after-") + kind,
                     desc + " a=" + std::to_string(a) + ":" + form_name[fa] + " b=" + std::to_string(b) + ":" + form_name[fb], seed);
      });
    });
    count(std::string("asg|d|") + kind);
  }

  if (want_sample()) sample("{\"family\":" + jstr(desc) + ",\"union0\":" + jstr(us[0].hist) + ",\"intersection0\":" + jstr(is[0].hist) + "}");
}

} // namespace vf
