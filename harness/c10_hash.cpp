// C10 (hash unit) — hashing of each input type matches the published MurmurHash3_x64_128 / XXHash64 definitions, so that
// sketches built by other language implementations remain mergeable.
//   batch 0  library MurmurHash3_x64_128 / XXHash64 (one-shot and incremental) / compute_seed_hash == independent reference
//            (vf/refhash.hpp) on known-answer vectors and random inputs (length 0..300, any alignment, random seeds)
//   batch 1  Theta: per update overload, the retained hash == reference hash of the canonicalised input >> 1
//   batch 2  Tuple and array-of-doubles: same for the keys
//   batch 3  HLL sketch and HLL union: per overload, stored coupon == (min(clz(h2),62)+1) << 26 | low 26 bits of h1
//   batch 4  CPC: per overload, the (row, column) pair in the sparse table == (h1 & (k-1)) << 6 | min(clz(h2),63)   [private table]
//   batch 5  Bloom filter: per overload, the set bits == reference XXH64 double hashing ((h0 + i*h1) >> 1) % m, h1 = XXH64(x, h0)
//   batch 6  count-min / frequent items: not cross-language contracts (std::default_random_engine row seeds, std::hash):
//            overload self-consistency only
// Compiled with -fno-access-control (CPC sparse table).
#include "vf/core.hpp"
#include "vf/gen.hpp"
#include "vf/refhash.hpp"
#include "vf/c10_decode.hpp"
#include <MurmurHash3.h>
#include <xxhash64.h>
#include <theta_sketch.hpp>
#include <tuple_sketch.hpp>
#include <array_of_doubles_sketch.hpp>
#include <hll.hpp>
#include <cpc_sketch.hpp>
#include <bloom_filter.hpp>
#include <count_min.hpp>

using namespace datasketches;
namespace vf {

const char* property_id() { return "C10"; }
unsigned case_timeout_s() { return 120; }
uint64_t num_cases(bool thorough) { return thorough ? 210000 : 2100; }
void final_report() {}

static const int NBATCH = 7;

static std::string val_ctx(const Val& v, uint64_t seed) { return std::string("input ") + v.to_string() + " seed=" + std::to_string(seed); }

// values that exercise the canonicalisation corners of one kind
static Val corner_val(Rng& r, int kind) {
  Val v = gen_val(r, r.chance(0.5) ? 1000 : (1ULL << 50), kind);
  if (r.chance(0.35)) {
    switch (kind) {
      case V_U64: v.u = r.pick<uint64_t>({0, 1, UINT64_MAX, 1ULL << 63, 0xffffffffULL, 0x100000000ULL}); break;
      case V_I64: v.u = r.pick<uint64_t>({0, uint64_t(-1), uint64_t(INT64_MIN), uint64_t(INT64_MAX)}); break;
      case V_U32: v.u = r.pick<uint64_t>({0, 1, 0x7fffffffULL, 0x80000000ULL, 0xffffffffULL}); break;
      case V_I32: v.u = r.pick<uint64_t>({0, 0xffffffffULL, 0x80000000ULL, 0x7fffffffULL}); break;
      case V_U16: v.u = r.pick<uint64_t>({0, 0x7fff, 0x8000, 0xffff}); break;
      case V_I16: v.u = r.pick<uint64_t>({0, 0xffff, 0x8000, 0x7fff}); break;
      case V_U8: v.u = r.pick<uint64_t>({0, 0x7f, 0x80, 0xff}); break;
      case V_I8: v.u = r.pick<uint64_t>({0, 0xff, 0x80, 0x7f}); break;
      case V_F64: v.d = special_double(r); break;
      case V_F32: v.f = static_cast<float>(special_double(r)); break;
      case V_STR: if (r.chance(0.3)) v.s.clear(); else if (r.coin()) v.s = std::string(1 + r.below(40), char(r.below(256))); break;
      default: if (r.coin()) v.s = std::string(r.below(48), char(r.below(256))); break;
    }
  }
  return v;
}

// ---------------------------------------------------------------- batch 0: raw hash functions
static void batch_raw(Rng& r) {
  { const std::string st = refhash_selftest(); VF_CHECK(st.empty(), "hash|reference-selftest", st); }
  // published known answers checked directly against the library
  {
    HashState h;
    MurmurHash3_x64_128("", 0, 0, h);
    VF_CHECK(h.h1 == 0 && h.h2 == 0, "hash|murmur3|kat-empty", "");
    const char* fox = "The quick brown fox jumps over the lazy dog";
    MurmurHash3_x64_128(fox, strlen(fox), 0, h);
    VF_CHECK(h.h1 == 0xe34bbc7bbc071b6cULL && h.h2 == 0x7a433ca9c49a9347ULL, "hash|murmur3|kat-fox", str(h.h1));
    MurmurHash3_x64_128("hello", 5, 0, h);
    VF_CHECK(h.h1 == 0xcbd8a7b341bd9b02ULL && h.h2 == 0x5b1e906a48ae1d19ULL, "hash|murmur3|kat-hello", str(h.h1));
    VF_CHECK(XXHash64::hash("", 0, 0) == 0xef46db3751d8e999ULL, "hash|xxh64|kat-empty", "");
    VF_CHECK(XXHash64::hash("a", 1, 0) == 0xd24ec4f1a98c6e5bULL, "hash|xxh64|kat-a", "");
    VF_CHECK(XXHash64::hash("abc", 3, 0) == 0x44bc2cf5ad770999ULL, "hash|xxh64|kat-abc", "");
    const char* spam = "Nobody inspects the spammish repetition";
    VF_CHECK(XXHash64::hash(spam, strlen(spam), 0) == 0xfbcea83c8a378bf1ULL, "hash|xxh64|kat-spam", "");
    VF_CHECK(compute_seed_hash(DEFAULT_SEED) == 0x93cc, "hash|seed-hash|default-seed-not-0x93cc", str(compute_seed_hash(DEFAULT_SEED)));   // value in every Java image
  }
  std::vector<uint8_t> buf(400);
  const bool xx_unaligned_case = (G().cur_case / NBATCH) % 64 == 3 && G().cur_case < 64 * NBATCH * 6;   // at most 6 probe cases per run
  for (int it = 0; it < 40; ++it) {
    const size_t len = r.chance(0.2) ? r.pick<size_t>({0, 1, 7, 8, 15, 16, 17, 31, 32, 33, 63, 64, 255, 256, 300}) : r.below(301);
    const size_t off = r.below(17);
    for (size_t i = 0; i < len; ++i) buf[off + i] = uint8_t(r.chance(0.1) ? (r.coin() ? 0 : 255) : r.next());
    const uint64_t seed = r.chance(0.2) ? r.pick<uint64_t>({0, 1, 9001, UINT64_MAX, 1ULL << 63}) : r.next();
    const std::string ctx = "len=" + std::to_string(len) + " offset=" + std::to_string(off) + " seed=" + std::to_string(seed) + " data=" + hexbytes(buf.data() + off, len, 48);
    HashState h;
    MurmurHash3_x64_128(buf.data() + off, len, seed, h);
    const H128 want = ref_murmur3_x64_128(buf.data() + off, len, seed);
    VF_CHECK(h.h1 == want.h1 && h.h2 == want.h2, "hash|murmur3|library-vs-reference", ctx + " lib=" + str(h.h1) + "," + str(h.h2) + " ref=" + str(want.h1) + "," + str(want.h2));
    // XXHash64 reads its input through uint64_t* / uint32_t* (xxhash64.h process()/hash()): a misaligned input is undefined
    // behaviour that UBSan stops at.  Only a few designated cases feed it misaligned data (reported by the driver as
    // crash|ubsan:load of misaligned address|xxhash64.h); all others use an 8-byte aligned copy so the values get compared.
    const bool probe_unaligned = xx_unaligned_case && it == 0;
    std::vector<uint64_t> abuf((len + 7) / 8 + 1);
    memcpy(abuf.data(), buf.data() + off, len);
    const uint8_t* xp = probe_unaligned ? buf.data() + (off | 1) : reinterpret_cast<const uint8_t*>(abuf.data());
    if (probe_unaligned) flush_progress("tick");   // UBSan aborts without the death callback: leave an exact case marker for the driver
    if (probe_unaligned) { memmove(buf.data() + (off | 1), buf.data() + off, len); count("xxh64_misaligned_input_probes"); }
    const uint64_t x = XXHash64::hash(xp, len, seed), xw = ref_xxh64(xp, len, seed);
    VF_CHECK(x == xw, "hash|xxh64|library-vs-reference", ctx + " lib=" + str(x) + " ref=" + str(xw));
    // incremental interface (chunks of whole 8-byte words keep every internal read aligned)
    XXHash64 inc(seed);
    for (size_t p = 0; p < len;) { const size_t n = std::min<size_t>(len - p, 8 * (1 + r.below(6))); inc.add(xp + p, n); p += n; }
    VF_CHECK(inc.hash() == xw, "hash|xxh64|incremental-vs-reference", ctx);
    VF_CHECK(compute_seed_hash(seed) == ref_seed_hash(seed), "hash|seed-hash|library-vs-reference", ctx);
    count("raw_hash_inputs");
    sig(mix64(want.h1, xw));
  }
}

// ---------------------------------------------------------------- batch 1/2: theta-family keys
template<typename SK, typename UPD, typename KEYS> static void theta_like(Rng& r, const char* fam, SK& sk, uint64_t seed, int kind, UPD upd, KEYS keys) {
  std::set<uint64_t> want;
  std::string first;
  const int n = 1 + static_cast<int>(r.below(30));
  for (int i = 0; i < n; ++i) {
    Val v = corner_val(r, kind);
    upd(sk, v);
    if (!v.ignored()) want.insert(v.ref_hash(seed).h1 >> 1);
    if (i == 0) first = val_ctx(v, seed);
    if (v.kind == V_F64 && (std::isnan(v.d) || (v.d == 0 && std::signbit(v.d)))) count("special_double_inputs");
    if (v.ignored()) count("ignored_empty_string_inputs");
  }
  const std::set<uint64_t> got = keys(sk);
  VF_CHECK(got == want, std::string("hash|") + fam + "|" + kind_name(kind) + "|retained-hash-vs-reference-murmur3", first + " values=" + std::to_string(n) + " retained=" + std::to_string(got.size()) + " reference=" + std::to_string(want.size()));
  VF_CHECK(sk.compact().get_seed_hash() == ref_seed_hash(seed), std::string("hash|") + fam + "|seed-hash-vs-reference", "seed=" + std::to_string(seed));
  count(std::string("typed_") + fam + "_" + kind_name(kind));
  sig(mix64(mix64(uint64_t(kind), got.size()), got.empty() ? 0 : *got.begin()));
}
template<typename SK> static std::set<uint64_t> pair_keys(const SK& sk) { std::set<uint64_t> k; for (const auto& e : sk) k.insert(e.first); return k; }

static void batch_theta(Rng& r, int kind) {
  const uint64_t seed = r.chance(0.4) ? DEFAULT_SEED : r.next();
  auto sk = update_theta_sketch::builder().set_lg_k(8).set_seed(seed).build();
  theta_like(r, "theta", sk, seed, kind, [](update_theta_sketch& s, const Val& v) { apply_update(s, v); },
             [](const update_theta_sketch& s) { std::set<uint64_t> k; for (auto h : s) k.insert(h); return k; });
}
template<typename S, typename U> static void upd_kv(S& sk, const Val& v, const U& u) {
  switch (v.kind) {
    case V_U64: sk.update(static_cast<uint64_t>(v.u), u); break;
    case V_I64: sk.update(static_cast<int64_t>(v.u), u); break;
    case V_U32: sk.update(static_cast<uint32_t>(v.u), u); break;
    case V_I32: sk.update(static_cast<int32_t>(static_cast<uint32_t>(v.u)), u); break;
    case V_U16: sk.update(static_cast<uint16_t>(v.u), u); break;
    case V_I16: sk.update(static_cast<int16_t>(static_cast<uint16_t>(v.u)), u); break;
    case V_U8:  sk.update(static_cast<uint8_t>(v.u), u); break;
    case V_I8:  sk.update(static_cast<int8_t>(static_cast<uint8_t>(v.u)), u); break;
    case V_F64: sk.update(v.d, u); break;
    case V_F32: sk.update(v.f, u); break;
    case V_STR: sk.update(v.s, u); break;
    default: sk.update(static_cast<const void*>(v.s.data()), v.s.size(), u); break;
  }
}
static void batch_tuple(Rng& r, int kind) {
  const uint64_t seed = r.chance(0.4) ? DEFAULT_SEED : r.next();
  if (r.coin()) {
    auto sk = update_tuple_sketch<double>::builder().set_lg_k(8).set_seed(seed).build();
    theta_like(r, "tuple", sk, seed, kind, [](update_tuple_sketch<double>& s, const Val& v) { upd_kv(s, v, 1.5); }, pair_keys<update_tuple_sketch<double>>);
  } else {
    auto sk = update_array_of_doubles_sketch::builder(2).set_lg_k(8).set_seed(seed).build();
    const std::vector<double> vals = {1.0, 2.0};
    theta_like(r, "aod", sk, seed, kind, [&vals](update_array_of_doubles_sketch& s, const Val& v) { upd_kv(s, v, vals); }, pair_keys<update_array_of_doubles_sketch>);
  }
}

// ---------------------------------------------------------------- batch 3: HLL coupons
static uint32_t ref_coupon(const Val& v) {
  const H128 h = v.ref_hash(9001);
  unsigned lz = h.h2 == 0 ? 64 : __builtin_clzll(h.h2);
  return ((lz > 62 ? 62u : lz) + 1) << 26 | uint32_t(h.h1 & 0x3ffffff);
}
static void batch_hll(Rng& r, int kind) {
  const uint8_t lg_k = static_cast<uint8_t>(8 + r.below(14));
  const target_hll_type T = static_cast<target_hll_type>(r.below(3));
  const bool via_union = r.chance(0.4);
  hll_sketch sk(lg_k, T);
  hll_union un(lg_k);
  std::set<uint32_t> want;
  std::string first;
  const int n = 1 + static_cast<int>(r.below(7));   // stays in LIST mode: coupons are stored verbatim
  for (int i = 0; i < n; ++i) {
    Val v = corner_val(r, kind);
    if (via_union) apply_update(un, v); else apply_update(sk, v);
    if (!v.ignored()) want.insert(ref_coupon(v));
    if (i == 0) first = val_ctx(v, 9001);
  }
  const hll_sketch res = via_union ? un.get_result(T) : sk;
  const auto img = res.serialize_compact();
  c10::Hll d = c10::decode_hll(img.data(), img.size(), true);
  std::set<uint32_t> got(d.coupons.begin(), d.coupons.end());
  VF_CHECK(d.mode != 2, "harness|hll-not-in-coupon-mode", first);
  VF_CHECK(got == want, std::string("hash|hll|") + (via_union ? "union|" : "sketch|") + kind_name(kind) + "|coupon-vs-reference-murmur3", first + " values=" + std::to_string(n) + " stored=" + std::to_string(got.size()) + " reference=" + std::to_string(want.size()));
  count(std::string("typed_hll_") + (via_union ? "union_" : "") + kind_name(kind));
  sig(mix64(mix64(uint64_t(kind) + 100, got.size()), got.empty() ? 0 : *got.begin()));
}

// ---------------------------------------------------------------- batch 4: CPC row/column pairs
static void batch_cpc(Rng& r, int kind) {
  const uint8_t lg_k = static_cast<uint8_t>(10 + r.below(8));
  const uint64_t seed = r.chance(0.4) ? DEFAULT_SEED : r.next();
  cpc_sketch sk(lg_k, seed);
  std::set<uint32_t> want;
  std::string first;
  const int n = 1 + static_cast<int>(r.below(20));   // far below 3K/32: sparse flavour, pairs kept verbatim in the table
  const uint32_t k = 1u << lg_k;
  for (int i = 0; i < n; ++i) {
    Val v = corner_val(r, kind);
    apply_update(sk, v);
    if (i == 0) first = val_ctx(v, seed);
    if (v.ignored()) continue;
    const H128 h = v.ref_hash(seed);
    unsigned col = h.h2 == 0 ? 64 : __builtin_clzll(h.h2); if (col > 63) col = 63;
    uint32_t rc = (uint32_t(h.h1 & (k - 1)) << 6) | col; if (rc == UINT32_MAX) rc ^= 1 << 6;
    want.insert(rc);
  }
  std::set<uint32_t> got;
  const uint32_t* slots = sk.surprising_value_table.get_slots();
  const size_t nslots = size_t(1) << sk.surprising_value_table.lg_size;
  for (size_t i = 0; i < nslots; ++i) if (slots[i] != UINT32_MAX) got.insert(slots[i]);
  VF_CHECK(got == want, std::string("hash|cpc|") + kind_name(kind) + "|row-col-vs-reference-murmur3", first + " values=" + std::to_string(n) + " stored=" + std::to_string(got.size()) + " reference=" + std::to_string(want.size()));
  VF_CHECK(sk.get_num_coupons() == want.size(), std::string("hash|cpc|") + kind_name(kind) + "|num-coupons-vs-reference", first);
  count(std::string("typed_cpc_") + kind_name(kind));
  sig(mix64(mix64(uint64_t(kind) + 200, got.size()), got.empty() ? 0 : *got.begin()));
}

// ---------------------------------------------------------------- batch 5: Bloom bit indexes
static bool bloom_canon(const Val& v, std::string& out) {
  auto le8 = [](uint64_t x) { std::string b(8, '\0'); for (int i = 0; i < 8; ++i) b[i] = char(x >> (8 * i)); return b; };
  switch (v.kind) {
    case V_U64: case V_I64: out = le8(v.u); return true;
    case V_U32: out = le8(uint64_t(uint32_t(v.u))); return true;                               // unsigned: zero extended
    case V_I32: out = le8(uint64_t(int64_t(int32_t(uint32_t(v.u))))); return true;             // signed: sign extended
    case V_U16: out = le8(uint64_t(uint16_t(v.u))); return true;
    case V_I16: out = le8(uint64_t(int64_t(int16_t(uint16_t(v.u))))); return true;
    case V_U8: out = le8(uint64_t(uint8_t(v.u))); return true;
    case V_I8: out = le8(uint64_t(int64_t(int8_t(uint8_t(v.u))))); return true;
    case V_F64: out = le8(canon_double_bits(v.d)); return true;
    case V_F32: out = le8(canon_double_bits(static_cast<double>(v.f))); return true;
    default: out = v.s; return !v.s.empty();
  }
}
static void batch_bloom(Rng& r, int kind) {
  const uint64_t seed = r.chance(0.3) ? DEFAULT_SEED : r.next();
  const uint64_t bits = r.chance(0.3) ? 64 * (1 + r.below(8)) : 1 + r.below(1u << 16);
  const uint16_t nh = static_cast<uint16_t>(1 + r.below(9));
  bloom_filter bf = bloom_filter::builder::create_by_size(bits, nh, seed);
  const uint64_t m = bf.get_capacity();
  VF_CHECK(m == ((bits + 63) / 64) * 64, "hash|bloom|capacity-not-rounded-up-to-64", "bits=" + std::to_string(bits) + " capacity=" + std::to_string(m));
  std::vector<uint8_t> want(m / 8, 0);
  std::string first;
  const int n = 1 + static_cast<int>(r.below(12));
  bool any = false;
  for (int i = 0; i < n; ++i) {
    Val v = corner_val(r, kind);
    apply_update(bf, v);
    if (i == 0) first = val_ctx(v, seed);
    std::string b;
    if (!bloom_canon(v, b)) continue;
    any = true;
    const uint64_t h0 = ref_xxh64(b.data(), b.size(), seed), h1 = ref_xxh64(b.data(), b.size(), h0);
    for (uint64_t j = 1; j <= nh; ++j) { const uint64_t idx = ((h0 + j * h1) >> 1) % m; want[idx >> 3] |= uint8_t(1u << (idx & 7)); }
    // query overload of the same type must find it
    bool q = true;
    switch (v.kind) {
      case V_U64: q = bf.query(static_cast<uint64_t>(v.u)); break; case V_I64: q = bf.query(static_cast<int64_t>(v.u)); break;
      case V_U32: q = bf.query(static_cast<uint32_t>(v.u)); break; case V_I32: q = bf.query(static_cast<int32_t>(static_cast<uint32_t>(v.u))); break;
      case V_U16: q = bf.query(static_cast<uint16_t>(v.u)); break; case V_I16: q = bf.query(static_cast<int16_t>(static_cast<uint16_t>(v.u))); break;
      case V_U8: q = bf.query(static_cast<uint8_t>(v.u)); break; case V_I8: q = bf.query(static_cast<int8_t>(static_cast<uint8_t>(v.u))); break;
      case V_F64: q = bf.query(v.d); break; case V_F32: q = bf.query(v.f); break;
      case V_STR: q = bf.query(v.s); break; default: q = bf.query(static_cast<const void*>(v.s.data()), v.s.size()); break;
    }
    VF_CHECK(q, std::string("hash|bloom|") + kind_name(kind) + "|query-misses-updated-item", val_ctx(v, seed));
  }
  const auto img = bf.serialize();
  c10::Bloom d = c10::decode_bloom(img.data(), img.size());
  if (!any) VF_CHECK(d.empty, std::string("hash|bloom|") + kind_name(kind) + "|ignored-input-changed-filter", first);
  else VF_CHECK(d.bits == want, std::string("hash|bloom|") + kind_name(kind) + "|bit-indexes-vs-reference-xxh64", first + " bits=" + std::to_string(m) + " hashes=" + std::to_string(nh) + " values=" + std::to_string(n));
  count(std::string("typed_bloom_") + kind_name(kind));
  sig(mix64(mix64(uint64_t(kind) + 300, m), mix64(nh, d.empty ? 0 : d.popcount())));
}

// ---------------------------------------------------------------- batch 6: count-min overload self-consistency
static void batch_countmin(Rng& r) {
  const uint64_t seed = r.chance(0.5) ? DEFAULT_SEED : r.next();
  const uint8_t nh = static_cast<uint8_t>(1 + r.below(6)); const uint32_t nb = static_cast<uint32_t>(3 + r.below(200));
  count_min_sketch<uint64_t> a(nh, nb, seed), b(nh, nb, seed);
  for (int i = 0; i < 30; ++i) {
    const uint64_t w = 1 + r.below(9);
    switch (r.below(3)) {
      case 0: { const uint64_t x = r.below(100); a.update(x, w); b.update(&x, sizeof x, w); break; }
      case 1: { const int64_t x = int64_t(r.below(100)) - 50; a.update(x, w); b.update(&x, sizeof x, w); break; }
      default: { const std::string s = "s" + std::to_string(r.below(100)); a.update(s, w); b.update(s.data(), s.size(), w); break; }
    }
  }
  std::vector<uint64_t> ca(a.begin(), a.end()), cb(b.begin(), b.end());
  VF_CHECK(ca == cb && a.get_total_weight() == b.get_total_weight(), "hash|countmin|typed-overload-vs-bytes-overload", "hashes=" + std::to_string(nh) + " buckets=" + std::to_string(nb));
  count("countmin_self_consistency");
  sig(mix64(mix64(nh, nb), ca.empty() ? 0 : ca[0]));
}

void run_case(uint64_t idx, Rng& r) {
  const int batch = static_cast<int>(idx % NBATCH);
  const int kind = static_cast<int>((idx / NBATCH) % V_NKINDS);
  static const char* names[] = {"raw hash functions", "theta typed updates", "tuple/aod typed updates", "hll typed updates", "cpc typed updates", "bloom typed updates", "count-min overloads"};
  describe(std::string("hash batch ") + names[batch] + (batch >= 1 && batch <= 5 ? std::string(" kind=") + kind_name(kind) : ""));
  try {
    switch (batch) {
      case 0: batch_raw(r); break;
      case 1: batch_theta(r, kind); break;
      case 2: batch_tuple(r, kind); break;
      case 3: batch_hll(r, kind); break;
      case 4: batch_cpc(r, kind); break;
      case 5: batch_bloom(r, kind); break;
      default: batch_countmin(r); break;
    }
  } catch (const c10::DecodeError& e) { checked(); fail("decode|" + e.key, e.what()); }
  count(std::string("hash_batches_") + std::to_string(batch));
}

} // namespace vf
