// C05 (unit 1) — a CPC sketch is an exact coupon bit-matrix in every flavor; its image is lossless.
// Generators: (a) hashed streams of typed values whose length sweeps every flavor boundary and many
// window shifts; (b) synthetic (row, col) coupons fed through row_col_update() in a realistic arrival
// order so that window offsets up to 56 are reached; (c) sparse-only smoke cases for lg_k 20 and 26.
// (d) row-clustered coupon sets (narrow band of rows + one far outlier) so that the image's pair coder sees
// row deltas of 255/256/257/.../512+ Golomb units, in all four table-bearing flavors.
// (e) windowed flavors at lg_k 20 (quick) and 20-22 (thorough) on both sides of C = m * 2^32/1000 (32-bit product wrap).
// Oracle: independent model = set of (row, col) pairs derived from the reference MurmurHash3.
#include "vf/c05_cpc.hpp"

using namespace datasketches;
namespace vf {
using namespace c05;

const char* property_id() { return "C05"; }
unsigned case_timeout_s() { return 300; }
uint64_t num_cases(bool thorough) { return thorough ? 9000 : 900; }
void final_report() {}

// sorted list of coupon counts at which a full observation is forced (each boundary -1, +0, +1)
static std::vector<uint64_t> watch_list(uint8_t lg_k) {
  std::vector<uint64_t> w;
  for (uint64_t b : boundaries(lg_k)) { if (b > 1) w.push_back(b - 1); w.push_back(b); w.push_back(b + 1); }
  w.push_back(1);
  std::sort(w.begin(), w.end());
  w.erase(std::unique(w.begin(), w.end()), w.end());
  return w;
}

struct Live {
  std::unique_ptr<cpc_sketch> sk;
  Model m;
  uint64_t seed;
  uint8_t last_offset = 0;
  uint64_t shifts_seen = 0;
};

static void checkpoint(Live& L, Rng& r, const char* pfx, const std::string& ctx, double p_roundtrip, bool bounds) {
  ObsOpt o; o.expect_merged = 0; o.check_bounds = bounds;
  observe(*L.sk, L.m, pfx, ctx, o);
  if (L.sk->window_offset != L.last_offset) { L.shifts_seen += L.sk->window_offset > L.last_offset ? L.sk->window_offset - L.last_offset : 0; L.last_offset = L.sk->window_offset; }
  if (r.chance(p_roundtrip)) {
    const bool swap_in = r.chance(0.25);
    std::unique_ptr<cpc_sketch> d;
    roundtrip(*L.sk, L.m, L.seed, pfx, ctx, swap_in ? &d : nullptr, static_cast<int>(r.below(3)));
    if (d) { L.sk = std::move(d); count("continued_on_deserialized"); }   // keep working on the deserialized sketch
  } else if (r.chance(0.03)) {
    L.sk.reset(new cpc_sketch(*L.sk)); count("continued_on_copy");
  }
}

// ---------------------------------------------------------------- (a) hashed streams
static void hashed_stream(Rng& r, bool T) {
  Live L;
  const uint8_t lg_k = static_cast<uint8_t>(r.chance(0.6) ? r.range(4, 8) : r.range(4, T ? 16 : 11));
  L.seed = r.chance(0.6) ? DEFAULT_SEED : r.next();
  L.m = Model(lg_k);
  L.sk.reset(new cpc_sketch(lg_k, L.seed));
  const uint64_t k = uint64_t(1) << lg_k;
  // stream length n = k * 2^u: from a handful of coupons to as many window shifts as the budget allows
  // budget: small k gets longer streams so that >= 12 window shifts happen (C/k ~ log2(n/k) + 1.33)
  const double nmax = T ? (lg_k <= 8 ? 8388608.0 : 4194304.0) : (lg_k <= 6 ? 1048576.0 : 262144.0);
  const double umax = std::log2(nmax / double(k));
  double u;
  switch (r.below(6)) {
    case 0: u = -6 + r.unit() * 4; break;            // sparse
    case 1: u = -3.5 + r.unit() * 3; break;          // around 3k/32 and k/2
    case 2: u = -1 + r.unit() * 4; break;            // pinned, first shifts
    case 3: u = umax - r.unit() * 1.5; break;        // as many shifts as the budget allows
    default: u = r.unit() * umax; break;             // anything in between
  }
  if (u > umax) u = umax;
  uint64_t n = static_cast<uint64_t>(double(k) * std::exp2(u));
  if (n < 1) n = 1;
  if (r.chance(0.05)) n = r.below(4);
  const uint64_t domain = r.chance(0.25) ? std::max<uint64_t>(1, n / 4) : (r.chance(0.5) ? 2 * n + 1 : (uint64_t(1) << 44));
  int kind = r.chance(0.35) ? -1 : static_cast<int>(r.below(V_NKINDS));
  if (n > 40000 && (kind == V_U8 || kind == V_I8 || kind == V_U16 || kind == V_I16)) kind = V_U64;   // tiny domains would never get anywhere
  describe("hashed lg_k=" + std::to_string(lg_k) + " seed=" + std::to_string(L.seed) + " n=" + std::to_string(n) + " domain=" + std::to_string(domain) + " kind=" + std::to_string(kind));
  const std::vector<uint64_t> watch = watch_list(lg_k);
  size_t wi = 0;
  const uint64_t every = std::max<uint64_t>(1, n / (12 + r.below(24)));
  const double p_rt = lg_k <= 9 ? 0.5 : 0.2;
  checkpoint(L, r, "stream", "at construction", 1.0, true);
  std::string first_ops;
  // rare keys (coupon column >= 31) planted at random positions; they only work with the seed they were mined for
  std::vector<std::pair<uint64_t, size_t>> plant;
  if (L.seed == DEFAULT_SEED && !rare_keys().empty() && n > 0 && r.chance(0.3)) {
    const int np = static_cast<int>(r.range(1, 4));
    for (int j = 0; j < np; ++j) plant.emplace_back(r.below(n), r.below(rare_keys().size()));
    count("stream_rare_key_cases");
  }
  if (rare_keys().size() < 3) count("rare_keys_failed_verification");
  for (uint64_t i = 0; i < n; ++i) {
    for (auto& pl : plant) if (pl.first == i) { feed(*L.sk, L.m, rare_val(rare_keys()[pl.second]), L.seed); checkpoint(L, r, "stream", "rare key at i=" + std::to_string(i), 0.7, true); }
    const Val v = gen_val(r, domain, kind);
    const uint64_t c_before = L.m.C;
    feed(*L.sk, L.m, v, L.seed);
    if (v.ignored()) count("ignored_empty_string");
    if (want_sample() && i < 5) first_ops += v.to_string() + ";";
    bool forced = false;
    if (L.m.C != c_before) {
      while (wi < watch.size() && watch[wi] < L.m.C) ++wi;
      if (wi < watch.size() && watch[wi] == L.m.C) forced = true;
    }
    if (forced) { count("boundary_checkpoints"); checkpoint(L, r, "stream", "i=" + std::to_string(i) + " (boundary)", lg_k <= 9 ? 0.6 : 0.15, true); }
    else if ((i + 1) % every == 0) checkpoint(L, r, "stream", "i=" + std::to_string(i), p_rt, true);
  }
  checkpoint(L, r, "stream", "at end", 1.0, true);
  count("hashed_streams");
  count("updates", n);
  if (L.shifts_seen >= 12) count("hashed_streams_with_12_shifts");
  if (want_sample()) sample("{\"config\":" + jstr(G().cur_desc) + ",\"first_values\":" + jstr(first_ops) + ",\"final_C\":" + std::to_string(L.m.C) +
                            ",\"final_offset\":" + std::to_string(L.sk->window_offset) + "}");
}

// ---------------------------------------------------------------- (b) synthetic coupons
// Cells (row, col) get arrival times distributed like those of a real stream: the time until some
// input lands on (row, col) is exponential with mean 2^(col+1) (in units of k inputs); cells are fed
// in order of arrival, optionally with a bounded multiplicative jitter so that there are more
// "surprising" bits than usual.  The model is simply the set of pairs fed.
static void synthetic(Rng& r, bool T) {
  Live L;
  const uint8_t lg_k = static_cast<uint8_t>(r.chance(0.5) ? r.range(4, 7) : r.range(4, T ? 12 : 10));
  L.seed = DEFAULT_SEED;
  L.m = Model(lg_k);
  L.sk.reset(new cpc_sketch(lg_k, L.seed));
  const uint64_t k = uint64_t(1) << lg_k;
  const uint64_t cmax_abs = max_coupons(lg_k);
  uint64_t target;
  switch (r.below(4)) {
    case 0: target = cmax_abs; break;                                        // all the way to offset 56
    case 1: target = cmax_abs - r.below(3 * k); break;
    default: target = 1 + r.below(cmax_abs); break;
  }
  const double jitter = r.pick({0.0, 0.0, 1.0, 3.0});
  const double p_dup = r.pick({0.0, 0.05, 0.3});
  // optionally start from a real hashed prefix (mixing both feeds)
  const uint64_t prefix = r.chance(0.3) ? r.below(4 * k) : 0;
  describe("synthetic lg_k=" + std::to_string(lg_k) + " target_C=" + std::to_string(target) + " jitter=" + str(jitter) + " p_dup=" + str(p_dup) + " hashed_prefix=" + std::to_string(prefix));
  for (uint64_t i = 0; i < prefix && L.m.C < target; ++i) feed(*L.sk, L.m, gen_val(r, uint64_t(1) << 40, V_U64), L.seed);
  // a few coupons in columns 31..63 long before a stream of this length would normally show them
  uint64_t hi_at = UINT64_MAX; int hi_n = 0;
  if (r.chance(0.3) && target + 6 < cmax_abs) { hi_at = r.below(target); hi_n = static_cast<int>(r.range(1, 4)); count("synthetic_hi_col_cases"); }
  struct Cell { double t; uint32_t rc; };
  std::vector<Cell> cells;
  cells.reserve(64 * k);
  for (uint32_t row = 0; row < k; ++row) for (unsigned col = 0; col < 64; ++col) {
    double e = -std::log(1.0 - r.unit());
    double t = std::ldexp(e, static_cast<int>(std::min(col, 62u)) + 1);
    if (jitter > 0) t *= std::exp2((r.unit() * 2 - 1) * jitter);
    cells.push_back(Cell{t, (row << 6) | col});
  }
  std::sort(cells.begin(), cells.end(), [](const Cell& a, const Cell& b) { return a.t < b.t || (a.t == b.t && a.rc < b.rc); });
  const std::vector<uint64_t> watch = watch_list(lg_k);
  size_t wi = 0;
  const uint64_t every = std::max<uint64_t>(1, target / (10 + r.below(20)));
  const double p_rt = lg_k <= 8 ? 0.7 : 0.34;
  uint64_t fed = 0;
  for (size_t i = 0; i < cells.size() && L.m.C < target; ++i) {
    const uint32_t rc = cells[i].rc;
    const uint64_t c_before = L.m.C;
    L.sk->row_col_update(rc);
    L.m.add_rc(rc);
    ++fed;
    if (fed == hi_at + 1) {
      for (int j = 0; j < hi_n; ++j) { const uint32_t h = (static_cast<uint32_t>(r.below(k)) << 6) | static_cast<uint32_t>(r.range(31, 63)); L.sk->row_col_update(h); L.m.add_rc(h); }
      checkpoint(L, r, "synthetic", "after planting columns >= 31 at fed=" + std::to_string(fed), 1.0, false);
    }
    if (p_dup > 0 && r.chance(p_dup)) { L.sk->row_col_update(cells[r.below(i + 1)].rc); count("synthetic_duplicates"); }
    bool forced = false;
    if (L.m.C != c_before) {
      while (wi < watch.size() && watch[wi] < L.m.C) ++wi;
      if (wi < watch.size() && watch[wi] == L.m.C) forced = true;
    }
    // bounds are a statement about HIP accuracy at offsets no hash stream reaches: not checked here
    if (forced) { count("boundary_checkpoints"); checkpoint(L, r, "synthetic", "fed=" + std::to_string(fed) + " (boundary)", p_rt, false); }
    else if (fed % every == 0) checkpoint(L, r, "synthetic", "fed=" + std::to_string(fed), p_rt, false);
  }
  checkpoint(L, r, "synthetic", "at end", 1.0, false);
  count("synthetic_streams");
  count("synthetic_coupons", fed);
  if (L.sk->window_offset == 56) count("synthetic_reached_offset_56");
  if (want_sample()) sample("{\"config\":" + jstr(G().cur_desc) + ",\"final_C\":" + std::to_string(L.m.C) + ",\"final_offset\":" + std::to_string(L.sk->window_offset) + "}");
}

// ---------------------------------------------------------------- (d) row-clustered coupon sets
// The image stores a row-sorted pair list with Golomb-coded row deltas.  Uniformly hashed streams only
// ever produce small deltas, so here the listed pairs are concentrated in a narrow band of rows with one
// far outlier placed an exact number of Golomb units (255, 256, 257, ... 512, ...) away.  Sparse and hybrid
// flavors: either real keys rejection-sampled by their reference-hash row, or synthetic coupons;
// pinned and sliding: synthetic matrices whose surprising values (the listed pairs) are clustered.
static unsigned geometric(Rng& r, unsigned cap) { unsigned g = 0; while (g < cap && r.coin()) ++g; return g; }

static void clustered(Rng& r, bool T) {
  Live L;
  const int mode = static_cast<int>(r.below(4));        // 0 sparse, 1 hybrid, 2 pinned, 3 sliding
  const bool hashed = mode <= 1 && r.chance(0.5);
  uint8_t lg_k;
  if (mode == 0) lg_k = static_cast<uint8_t>(r.range(12, T ? 16 : 14));
  else if (mode == 1) lg_k = static_cast<uint8_t>(r.range(10, T ? 16 : 14));
  else lg_k = static_cast<uint8_t>(r.range(10, T ? 14 : 13));
  L.seed = hashed && r.chance(0.4) ? r.next() : DEFAULT_SEED;
  L.m = Model(lg_k);
  L.sk.reset(new cpc_sketch(lg_k, L.seed));
  const uint64_t k = uint64_t(1) << lg_k;
  // number of listed pairs P (> 256 is needed for a delta of 256 units to fit into k rows)
  uint64_t pmin = 310, pmax;
  if (mode == 0) pmax = (3 * k + 31) / 32 - 2;
  else if (mode == 1) { pmin = std::max<uint64_t>(pmin, (3 * k + 31) / 32 + 1); pmax = k / 2 - 3; }
  else pmax = 1200;
  pmax = std::min<uint64_t>({pmax, 1500, 3 * (k / 4) / 2});
  if (pmin > pmax) pmin = pmax;
  const uint64_t P = pmin + r.below(pmax - pmin + 1);
  // band of rows: narrow, but wide enough to hold P distinct pairs with plausible columns
  uint64_t bw = k / 4;
  { std::vector<uint64_t> c; for (uint64_t x : {k / 16, k / 8, k / 4}) if (3 * x / 2 >= P) c.push_back(x); if (!c.empty()) bw = c[r.below(c.size())]; }
  uint64_t r0;
  switch (r.below(3)) { case 0: r0 = r.below(k / 16 + 1); break; case 1: r0 = k - bw - r.below(k / 16 + 1); break; default: r0 = r.below(k - bw + 1); }
  const unsigned w = mode == 3 ? static_cast<unsigned>(r.range(1, lg_k >= 13 ? 6 : (T ? 24 : 10))) : 0;
  const unsigned late0 = mode == 2 ? 8 : (mode == 3 ? w + 8 : 0);   // first column right of the window
  describe(std::string("clustered ") + flavor_name(static_cast<Flavor>(mode + 1)) + (hashed ? " hashed" : " synthetic") + " lg_k=" + std::to_string(lg_k) +
           " seed=" + std::to_string(L.seed) + " P=" + std::to_string(P) + " band=[" + std::to_string(r0) + "," + std::to_string(r0 + bw) + ") w=" + std::to_string(w));
  // --- the listed pairs inside the band
  std::set<uint32_t> listed;
  std::vector<Val> keys;       // hashed feed
  const int kind = r.pick({int(V_U64), int(V_I64), int(V_F64), int(V_STR), int(V_BYTES)});
  uint64_t zeros_wanted = mode == 3 ? r.below(P + 1) : 0;            // sliding: surprising zeros left of the window
  if (mode == 3 && zeros_wanted > bw * w / 2) zeros_wanted = bw * w / 2;
  uint64_t guard = 0;
  while (listed.size() < P && ++guard < 4000000) {
    if (hashed) {
      const Val v = gen_val(r, uint64_t(1) << 44, kind);
      if (v.ignored()) continue;
      const uint32_t rc = ref_row_col(v.ref_hash(L.seed), lg_k);
      const uint64_t row = rc >> 6;
      if (row < r0 || row >= r0 + bw) continue;
      if (listed.insert(rc).second) keys.push_back(v);
    } else {
      const uint32_t row = static_cast<uint32_t>(r0 + r.below(bw));
      unsigned col;
      if (mode == 3 && listed.size() < zeros_wanted) col = static_cast<unsigned>(r.below(w));
      else col = std::min(63u, late0 + geometric(r, 30));
      listed.insert((row << 6) | col);
    }
  }
  // --- one outlier an exact number of Golomb units away from the band (above it if it fits, else below, else as far as possible)
  uint32_t rmin = UINT32_MAX, rmax = 0;
  for (uint32_t rc : listed) { rmin = std::min(rmin, rc >> 6); rmax = std::max(rmax, rc >> 6); }
  const uint64_t q = k / (listed.size() + 1);
  const unsigned b = q ? floor_log2_u64(q) : 0;
  const uint64_t g = r.pick<uint64_t>({255, 256, 257, 263, 264, 272, 300, 511, 512, 513, 768, 100000});
  const uint64_t delta = (g << b) + r.below(uint64_t(1) << b);
  uint64_t row_out;
  if (rmax + delta < k) row_out = rmax + delta;
  else if (rmin >= delta) row_out = rmin - delta;
  else row_out = (k - 1 - rmax >= rmin) ? k - 1 : 0;
  bool have_outlier = false;
  if (hashed) {
    for (uint64_t tries = 0; tries < 60 * k && !have_outlier; ++tries) {
      const Val v = gen_val(r, uint64_t(1) << 44, kind);
      if (v.ignored()) continue;
      const uint32_t rc = ref_row_col(v.ref_hash(L.seed), lg_k);
      if ((rc >> 6) == row_out) { listed.insert(rc); keys.push_back(v); have_outlier = true; }
    }
  } else {
    unsigned col = (mode == 3 && r.coin()) ? static_cast<unsigned>(r.below(w)) : std::min(63u, late0 + geometric(r, 30));
    listed.insert((static_cast<uint32_t>(row_out) << 6) | col);
    have_outlier = true;
  }
  if (have_outlier) count("clustered_with_outlier");
  // --- feed
  const char* pfx = hashed ? "stream" : "synthetic";
  if (hashed) {
    r.shuffle(keys);
    const size_t every = keys.size() / 3 + 1;
    for (size_t i = 0; i < keys.size(); ++i) {
      feed(*L.sk, L.m, keys[i], L.seed);
      if ((i + 1) % every == 0) checkpoint(L, r, pfx, "clustered i=" + std::to_string(i), 1.0, true);
    }
    count("clustered_hashed");
  } else {
    // cells of the whole matrix, fed roughly column by column (as a real stream fills them)
    struct Cell { double key; uint32_t rc; };
    std::vector<Cell> cells;
    auto put = [&](uint32_t row, unsigned col) { cells.push_back(Cell{double(col) + r.unit() * 1.5, (row << 6) | col}); };
    if (mode <= 1) { for (uint32_t rc : listed) cells.push_back(Cell{r.unit(), rc}); }
    else {
      double pw[8];
      if (mode == 2) { const double lam = 1.2 + r.unit() * 3.8; for (int j = 0; j < 8; ++j) pw[j] = 1 - std::exp(-lam / std::ldexp(1.0, j + 1)); }
      else { const double base[8] = {0.9, 0.75, 0.55, 0.35, 0.2, 0.1, 0.05, 0.02}; for (int j = 0; j < 8; ++j) pw[j] = base[j]; }
      for (uint32_t row = 0; row < k; ++row) {
        for (unsigned col = 0; col < w; ++col) if (!listed.count((row << 6) | col)) put(row, col);      // left of the window: ones, except the listed zeros
        for (unsigned j = 0; j < 8; ++j) if (r.chance(pw[j])) put(row, w + j);                          // the window
      }
      for (uint32_t rc : listed) if ((rc & 63) >= late0) put(rc >> 6, rc & 63);                         // listed ones right of the window
    }
    std::sort(cells.begin(), cells.end(), [](const Cell& a, const Cell& b2) { return a.key < b2.key || (a.key == b2.key && a.rc < b2.rc); });
    const size_t every = cells.size() / 4 + 1;
    for (size_t i = 0; i < cells.size(); ++i) {
      L.sk->row_col_update(cells[i].rc);
      L.m.add_rc(cells[i].rc);
      if ((i + 1) % every == 0) checkpoint(L, r, pfx, "clustered fed=" + std::to_string(i + 1), 1.0, false);
    }
    count("clustered_synthetic");
    count("synthetic_coupons", cells.size());
  }
  checkpoint(L, r, pfx, "clustered at end", 1.0, hashed);
  // one more image after a few ordinary updates on top of the clustered state
  for (int i = 0; i < 3; ++i) feed(*L.sk, L.m, gen_val(r, uint64_t(1) << 40, V_U64), L.seed);
  checkpoint(L, r, pfx, "clustered + 3 hashed updates", 1.0, hashed);
  count(std::string("clustered_final_flavor_") + flavor_name(flavor_of(lg_k, L.m.C)));
  if (want_sample()) sample("{\"config\":" + jstr(G().cur_desc) + ",\"final_C\":" + std::to_string(L.m.C) + ",\"max_row_gap_units\":" + std::to_string(max_row_gap_units(L.m)) + "}");
}

// ---------------------------------------------------------------- (c) large lg_k, sparse flavor only
static void big_sparse(Rng& r, uint8_t lg_k) {
  Live L;
  L.seed = r.chance(0.5) ? DEFAULT_SEED : r.next();
  L.m = Model(lg_k);
  L.sk.reset(new cpc_sketch(lg_k, L.seed));
  const uint64_t n = 200 + r.below(lg_k >= 26 ? 6000 : 20000);
  describe("big-sparse lg_k=" + std::to_string(lg_k) + " seed=" + std::to_string(L.seed) + " n=" + std::to_string(n));
  const bool heavy = lg_k <= 20;
  for (uint64_t i = 0; i < n; ++i) {
    feed(*L.sk, L.m, gen_val(r, n, -1), L.seed);
    if (i == n / 2 || i + 1 == n) {
      ObsOpt o; o.expect_merged = 0; o.heavy_validate = heavy;
      observe(*L.sk, L.m, "stream", "big i=" + std::to_string(i), o);
      std::unique_ptr<cpc_sketch> d;
      roundtrip(*L.sk, L.m, L.seed, "stream", "big i=" + std::to_string(i), i == n / 2 ? &d : nullptr, 2, heavy);
      if (d) L.sk = std::move(d);
    }
  }
  if (!heavy) {
    // one pass over the real k x 64 matrix (0.5 GB at lg_k = 26) and one validate()
    VF_CHECK(L.sk->validate(), "stream|validate-false", G().cur_desc);
    auto mat = L.sk->build_bit_matrix();
    uint64_t bad = 0, nonzero = 0;
    VF_CHECK(mat.size() == L.m.k(), "stream|matrix-row-count", G().cur_desc);
    for (size_t i = 0; i < mat.size(); ++i) if (mat[i]) { ++nonzero; if (mat[i] != L.m.row_bits(static_cast<uint32_t>(i))) ++bad; }
    uint64_t want_rows = 0; L.m.for_each_row([&](uint32_t, uint64_t) { ++want_rows; });
    VF_CHECK(bad == 0 && nonzero == want_rows, "stream|matrix-differs-from-model", G().cur_desc + " bad_rows=" + std::to_string(bad) + " nonzero=" + std::to_string(nonzero) + " want=" + std::to_string(want_rows));
  }
  count(std::string("big_sparse_lgk") + std::to_string(lg_k));
}

// ---------------------------------------------------------------- (e) windowed flavors at lg_k 20..22
// Arithmetic on (k, C) must not be done in 32 bits: 1000*C passes 2^32 at C = 4 294 968, 2375*k at lg_k 21.
// A simulated stream (cell (row, col) present with probability 1 - exp(-lambda / 2^(col+1))) is fed column by
// column with the sparse high columns sprinkled in, and the sketch is observed and round-tripped in the
// hybrid and pinned flavors, just after becoming sliding, and on both sides of every multiple of 2^32/1000.
static void big_windowed(Rng& r, uint8_t lg_k, double final_ratio, bool light) {
  Live L;
  L.seed = DEFAULT_SEED;
  L.m = Model(lg_k);
  L.sk.reset(new cpc_sketch(lg_k, L.seed));
  const uint64_t k = uint64_t(1) << lg_k;
  const uint64_t target = static_cast<uint64_t>(final_ratio * double(k));
  std::vector<uint64_t> cps;
  if (!light) { cps.push_back(3 * k / 10); cps.push_back(12 * k / 10); cps.push_back(23 * k / 10); }
  cps.push_back(27 * k / 8 + k / 16);
  for (uint64_t mlt = 1;; ++mlt) {
    const uint64_t c0 = static_cast<uint64_t>((mlt << 32) / 1000);       // last C with 1000*C < mlt*2^32
    if (c0 + 1 > target) break;
    if (c0 > 27 * k / 8) { cps.push_back(c0); cps.push_back(c0 + 1); }
  }
  cps.push_back(target);
  std::sort(cps.begin(), cps.end()); cps.erase(std::unique(cps.begin(), cps.end()), cps.end());
  const double lambda = std::exp2(final_ratio - 1.33 + 1.0);
  const unsigned J0 = static_cast<unsigned>(std::floor(std::log2(lambda))) + 3;
  describe("big-windowed lg_k=" + std::to_string(lg_k) + " target_C=" + std::to_string(target) + " lambda=" + str(lambda) + " checkpoints=" + std::to_string(cps.size()));
  // the sparse high columns, by skip sampling
  std::vector<uint32_t> late;
  double dense_expected = 0;
  for (unsigned col = 0; col < J0; ++col) dense_expected += double(k) * (1 - std::exp(-lambda / std::ldexp(1.0, col + 1)));
  for (unsigned col = J0; col < J0 + 26 && col < 64; ++col) {
    const double p = 1 - std::exp(-lambda / std::ldexp(1.0, col + 1));
    if (p * double(k) < 0.01) break;
    double pos = 0;
    for (;;) { pos += std::floor(std::log(1.0 - r.unit()) / std::log(1.0 - p)) + 1; if (pos > double(k)) break; late.push_back((static_cast<uint32_t>(pos - 1) << 6) | col); }
  }
  r.shuffle(late);
  const uint64_t sprinkle = std::max<uint64_t>(1, static_cast<uint64_t>(dense_expected / double(late.size() + 1)));
  size_t ci = 0, li = 0; uint64_t fed = 0; bool done = false;
  auto give = [&](uint32_t rc) {
    L.sk->row_col_update(rc);
    ++fed;
    if (L.m.add_rc(rc) && ci < cps.size() && L.m.C == cps[ci]) {
      ++ci;
      ObsOpt o; o.expect_merged = 0; o.check_bounds = false;
      const std::string ctx = "big C=" + std::to_string(L.m.C);
      observe(*L.sk, L.m, "synthetic", ctx, o);
      std::unique_ptr<cpc_sketch> d;
      roundtrip(*L.sk, L.m, L.seed, "synthetic", ctx, r.chance(0.3) ? &d : nullptr, static_cast<int>(r.below(3)));
      if (d) { L.sk = std::move(d); count("continued_on_deserialized"); }
      count("big_windowed_checkpoints");
      if (ci == cps.size()) done = true;
    }
  };
  for (unsigned col = 0; col < J0 && !done; ++col) {
    const double p = 1 - std::exp(-lambda / std::ldexp(1.0, col + 1));
    // rows in a scattered order (multiplicative permutation): the cells still missing in a column are then spread
    // over all rows as in a real stream (filling rows 0,1,2,... would leave one contiguous block of surprising zeros)
    const uint32_t mul = (static_cast<uint32_t>(0.6180339887 * double(k)) | 1u), add = static_cast<uint32_t>(r.below(k));
    for (uint32_t i = 0; i < k && !done; ++i) {
      if (!r.chance(p)) continue;
      const uint32_t row = static_cast<uint32_t>((uint64_t(i) * mul + add) & (k - 1));
      give((row << 6) | col);
      if (fed % sprinkle == 0 && li < late.size() && !done) give(late[li++]);
    }
  }
  VF_CHECK(done, "harness|big-windowed-target-not-reached", G().cur_desc + " C=" + std::to_string(L.m.C));
  count("big_windowed_lgk" + std::to_string(lg_k));
  count("synthetic_coupons", fed);
}

// 16 M distinct hashed updates at lg_k 20 (C ~ 4.47 M, sliding, beyond 2^32/1000)
static void big_hashed(Rng& r) {
  Live L;
  const uint8_t lg_k = 20;
  L.seed = DEFAULT_SEED;
  L.m = Model(lg_k);
  L.sk.reset(new cpc_sketch(lg_k, L.seed));
  const uint64_t n = 16000000, base = r.next();
  describe("big-hashed lg_k=20 n=16000000 base=" + std::to_string(base));
  const uint64_t c0 = (uint64_t(1) << 32) / 1000;
  bool seen_boundary = false;
  for (uint64_t i = 0; i < n; ++i) {
    const uint64_t v = base + i;
    L.sk->update(v);
    const bool novel = L.m.add_rc(ref_row_col(ref_hash_u64(v, L.seed), lg_k));
    if ((novel && (L.m.C == c0 || L.m.C == c0 + 1)) || i + 1 == n) {
      if (novel && L.m.C == c0 + 1) seen_boundary = true;
      ObsOpt o; o.expect_merged = 0;
      observe(*L.sk, L.m, "stream", "big-hashed i=" + std::to_string(i), o);
      roundtrip(*L.sk, L.m, L.seed, "stream", "big-hashed i=" + std::to_string(i));
    }
  }
  if (seen_boundary) count("big_hashed_lgk20_16M");
  count("updates", n);
}

void run_case(uint64_t idx, Rng& r) {
  const bool T = G().thorough();
  if (idx == 21 || (T && (idx == 29 || idx == 37 || idx == 45 || idx == 53))) {   // case 21 (~2-3 CPU-s under ASan) also runs in the quick tier
    try {
      if (idx == 21) big_windowed(r, 20, 4.105, true);           // just past C = 2^32/1000 (C/k = 4.096)
      else if (idx == 29) big_windowed(r, 20, 6.6, false);
      else if (idx == 37) big_windowed(r, 21, 4.45, false);      // passes 2*2^32/1000
      else if (idx == 45) big_windowed(r, 22, 4.2, false);       // passes 4*2^32/1000
      else big_hashed(r);
    } catch (const std::exception& e) { fail("big|threw", G().cur_desc + " what=" + e.what()); }
    return;
  }
  if (idx == 5) { big_sparse(r, 20); return; }
  if (T && idx == 11) { big_sparse(r, 26); return; }
  if (T && idx % 1500 == 17) { big_sparse(r, static_cast<uint8_t>(r.range(17, 22))); return; }
  if (idx % 8 == 3) {
    try { clustered(r, T); }
    catch (const std::exception& e) { fail("clustered|threw", G().cur_desc + " what=" + e.what()); }
    return;
  }
  const bool hashed = r.chance(0.62);
  try {
    if (hashed) hashed_stream(r, T); else synthetic(r, T);
  } catch (const std::exception& e) {
    // no update / read-out / serialization of a valid sketch is allowed to throw
    fail(hashed ? "stream|threw" : "synthetic|threw", G().cur_desc + " what=" + e.what());
  }
}

} // namespace vf
