// C11 unit: frequent_items_sketch<int64_t> / <std::string>, count_min_sketch<uint64_t>, bloom_filter
// (deserialize from bytes and stream, read-only wrap, writable wrap).
#include "vf/c11_fault.hpp"
#include <frequent_items_sketch.hpp>
#include <count_min.hpp>
#include <bloom_filter.hpp>
#include <tuple>

using namespace datasketches;
namespace vf { namespace c11 {

unsigned variants(bool thorough) { return thorough ? 20 : 3; }

// ------------------------------------------------------------------ frequent items
template<typename T> struct FiItem;
template<> struct FiItem<int64_t> {
  static int64_t make(uint64_t i) { return static_cast<int64_t>(i * 3 + 1) * ((i & 7) == 5 ? -1 : 1); }
  static std::string show(int64_t v) { return std::to_string(v); }
};
template<> struct FiItem<std::string> {
  // item 0 is the empty string; lengths 0..13
  static std::string make(uint64_t i) {
    if (i == 0) return std::string();
    return std::to_string((i * 2654435761ULL) % 100000) + std::string(static_cast<size_t>(i % 5), static_cast<char>('a' + i % 26)) + (i % 11 == 3 ? std::string(1, '\0') : std::string()) + long_pad(i);
  }
  static std::string show(const std::string& v) { return "'" + hex(v.data(), v.size()) + "'"; }
};

template<typename T> static std::string fi_readout(const frequent_items_sketch<T>& s) {
  typedef FiItem<T> I;
  std::string o;
  o += "empty=" + std::to_string(s.is_empty()) + " active=" + std::to_string(s.get_num_active_items()) + " total=" + std::to_string(s.get_total_weight()) +
       " maxerr=" + std::to_string(s.get_maximum_error()) + " eps=" + num(s.get_epsilon()) + " sersize=" + std::to_string(s.get_serialized_size_bytes());
  // lg sizes are only visible through the image (bytes 3 and 4)
  auto img = s.serialize();
  o += " lgmax=" + std::to_string(img.size() > 3 ? img[3] : 0) + " lgcur=" + std::to_string(img.size() > 4 ? img[4] : 0);
  const frequent_items_error_type types[2] = {NO_FALSE_POSITIVES, NO_FALSE_NEGATIVES};
  for (int t = 0; t < 2; ++t) {
    for (int th = 0; th < 2; ++th) {
      auto rows = th == 0 ? s.get_frequent_items(types[t]) : s.get_frequent_items(types[t], 0);
      std::vector<std::tuple<uint64_t, uint64_t, uint64_t, std::string>> v;
      bool desc = true;
      for (size_t i = 0; i < rows.size(); ++i) {
        v.push_back(std::make_tuple(rows[i].get_estimate(), rows[i].get_lower_bound(), rows[i].get_upper_bound(), I::show(rows[i].get_item())));
        if (i && rows[i - 1].get_estimate() < rows[i].get_estimate()) desc = false;
      }
      std::sort(v.begin(), v.end());   // canonical: the library's order among equal estimates depends on the table layout
      o += " F" + std::to_string(t) + std::to_string(th) + "[" + std::to_string(v.size()) + (desc ? "" : " NOT-DESCENDING") + "]:";
      for (auto& x : v) o += std::to_string(std::get<0>(x)) + "/" + std::to_string(std::get<1>(x)) + "/" + std::to_string(std::get<2>(x)) + "=" + std::get<3>(x) + ",";
    }
  }
  o += " P:";
  for (uint64_t j = 0; j < 40; ++j) {
    const T it = I::make(j);
    o += std::to_string(s.get_estimate(it)) + "/" + std::to_string(s.get_lower_bound(it)) + "/" + std::to_string(s.get_upper_bound(it)) + ",";
  }
  o += " str=" + std::to_string(s.to_string(true).size());
  o += " ser=" + hexv(img);
  std::ostringstream os; s.serialize(os); o += " sers=" + std::to_string(os.str().size());
  return o;
}

template<typename T> static void fi_use(frequent_items_sketch<T>& s) {
  typedef FiItem<T> I;
  for (uint64_t i = 0; i < 50; ++i) s.update(I::make(i * 7 % 61), 1 + i % 4);
  frequent_items_sketch<T> fresh(4);
  for (uint64_t i = 0; i < 30; ++i) fresh.update(I::make(i + 20), 2);
  s.merge(fresh);
  fresh.merge(s);
  (void)fi_readout(s);
  (void)fi_readout(fresh);
}

// cheap read-outs for accepted objects that own a block > 64 MiB (see accept()): nothing here scales with the object's size
template<typename T> static void fi_cheap(frequent_items_sketch<T>& s) {
  typedef FiItem<T> I;
  (void)s.is_empty(); (void)s.get_num_active_items(); (void)s.get_total_weight(); (void)s.get_maximum_error(); (void)s.get_epsilon();
  (void)s.get_estimate(I::make(1)); (void)s.get_upper_bound(I::make(2));
  s.update(I::make(3), 2);
  (void)s.get_estimate(I::make(3));
}
template<typename T> static std::string fi_bytes(const void* p, size_t n, bool use) {
  return accept([&] { return frequent_items_sketch<T>::deserialize(p, n); }, fi_readout<T>, fi_use<T>, use, fi_cheap<T>);
}
template<typename T> static std::string fi_stream(std::istream& is, bool use) {
  return accept([&] { return frequent_items_sketch<T>::deserialize(is); }, fi_readout<T>, fi_use<T>, use, fi_cheap<T>);
}

enum FK { F_EMPTY, F_SINGLE, F_FEW, F_GROWN, F_PURGED, F_BIGCFG };
template<typename T> static Bytes fi_image(Rng& r, bool T_, int kind) {
  typedef FiItem<T> I;
  uint8_t lg_max = static_cast<uint8_t>(r.range(3, T_ ? 6 : 5));
  uint8_t lg_start = 3;
  if (kind == F_GROWN) { lg_max = static_cast<uint8_t>(r.range(5, 6)); }
  else if (kind == F_FEW) lg_start = static_cast<uint8_t>(r.range(3, lg_max));
  // large nominal configuration, tiny content: count fields of the image are then bounded only by the large configured maximum
  else if (kind == F_BIGCFG) lg_max = static_cast<uint8_t>(r.range(24, 28));
  frequent_items_sketch<T> s(lg_max, lg_start);
  const uint64_t cap = (3ULL << lg_max) / 4;
  const uint64_t off = r.below(20);
  switch (kind) {
    case F_EMPTY: break;
    case F_SINGLE: s.update(I::make(r.below(30)), 1 + r.below(1000)); break;
    case F_BIGCFG:
    case F_FEW: { const uint64_t m = 2 + r.below(4); for (uint64_t i = 0; i < m; ++i) s.update(I::make(off + i), 1 + r.below(50)); break; }          // below the start capacity (6)
    case F_GROWN: {   // 13 .. cap-1 distinct items: the table grew from 8 to 32 or 64 slots, no purge
      const uint64_t m = 13 + r.below(cap - 13);
      for (uint64_t i = 0; i < m; ++i) s.update(I::make(off + i), 1 + r.below(50));
      for (uint64_t i = 0; i < m; ++i) if (r.coin()) s.update(I::make(off + r.below(m)), 1 + r.below(5));
      break;
    }
    default: {
      const uint64_t m = cap * (2 + r.below(5));
      for (uint64_t i = 0; i < m || s.get_maximum_error() == 0 || s.is_empty(); ++i) {
        s.update(I::make(off + (r.chance(0.3) ? r.below(6) : i)), r.chance(0.3) ? 1 + r.below(200) : 1 + r.below(5));
        if (i > 100000) break;
      }
      break;
    }
  }
  auto v = s.serialize();
  return Bytes(v.begin(), v.end());
}

// ------------------------------------------------------------------ count-min
typedef count_min_sketch<uint64_t> cm_sketch;
static const uint64_t CM_BIG = 1u << 20;   // counters; images of this unit have at most 320
static std::string cm_readout(const cm_sketch& s) {
  std::string o;
  o += "nh=" + std::to_string(s.get_num_hashes()) + " nb=" + std::to_string(s.get_num_buckets()) + " seed=" + std::to_string(s.get_seed()) +
       " total=" + std::to_string(s.get_total_weight()) + " empty=" + std::to_string(s.is_empty()) + " relerr=" + num(s.get_relative_error()) +
       " sersize=" + std::to_string(s.get_serialized_size_bytes());
  // a corrupted bucket count can legitimately describe a table of up to 2^30 counters: print the first 4096, hash the rest
  o += " A:";
  uint64_t cnt = 0, h = 0;
  for (auto it = s.begin(); it != s.end(); ++it) { if (cnt < 4096) o += std::to_string(*it) + ","; else h = h * 0x9e3779b97f4a7c15ULL + *it; ++cnt; }
  o += " iter=" + std::to_string(cnt) + " h=" + std::to_string(h);
  o += " P:";
  for (uint64_t j = 0; j < 24; ++j) o += std::to_string(s.get_estimate(j)) + "/" + std::to_string(s.get_lower_bound(j)) + "/" + std::to_string(s.get_upper_bound(j)) + ",";
  const std::string strs[3] = {"a", "bb", ""};
  for (auto& x : strs) o += std::to_string(s.get_estimate(x)) + "/" + std::to_string(s.get_upper_bound(x)) + ",";
  o += std::to_string(s.get_estimate(static_cast<int64_t>(-3))) + ",";
  o += " str=" + std::to_string(s.to_string().size());
  o += " ser=" + hexv(s.serialize());
  if (cnt <= CM_BIG) { std::ostringstream os; s.serialize(os); o += " sers=" + std::to_string(os.str().size()); }
  return o;
}
static void cm_use(cm_sketch& s) {
  for (uint64_t i = 0; i < 50; ++i) s.update(i * 5 % 37, 1 + i % 3);
  s.update(std::string("bb"), 4);
  cm_sketch fresh(s.get_num_hashes(), s.get_num_buckets(), s.get_seed());
  for (uint64_t i = 0; i < 30; ++i) fresh.update(i, 2);
  s.merge(fresh);
  if (static_cast<uint64_t>(s.get_num_hashes()) * s.get_num_buckets() > CM_BIG) { (void)s.get_estimate(static_cast<uint64_t>(3)); return; }   // keep the harness cost bounded
  fresh.merge(s);
  (void)cm_readout(s);
  (void)cm_readout(fresh);
}
static void cm_cheap(cm_sketch& s) {
  (void)s.get_num_hashes(); (void)s.get_num_buckets(); (void)s.get_seed(); (void)s.is_empty(); (void)s.get_total_weight(); (void)s.get_relative_error();
  (void)s.get_estimate(static_cast<uint64_t>(7));
  s.update(static_cast<uint64_t>(7), 3);
  (void)s.get_estimate(static_cast<uint64_t>(7)); (void)s.get_upper_bound(static_cast<uint64_t>(7));
}
static std::string cm_bytes(const void* p, size_t n, bool use) {
  return accept([&] { return cm_sketch::deserialize(p, n, DEFAULT_SEED); }, cm_readout, cm_use, use, cm_cheap);
}
static std::string cm_stream(std::istream& is, bool use) {
  return accept([&] { return cm_sketch::deserialize(is, DEFAULT_SEED); }, cm_readout, cm_use, use, cm_cheap);
}
enum CK { C_EMPTY, C_FEW, C_MANY };
static Bytes cm_image(Rng& r, bool T_, int kind) {
  const uint8_t nh = static_cast<uint8_t>(r.range(1, 5));
  const uint32_t nb = static_cast<uint32_t>(r.range(3, T_ ? 64 : 40));
  cm_sketch s(nh, nb, DEFAULT_SEED);
  const uint64_t m = kind == C_EMPTY ? 0 : kind == C_FEW ? 1 + r.below(4) : 200 + r.below(2000);
  for (uint64_t i = 0; i < m; ++i) {
    if (r.chance(0.1)) s.update(std::string(1 + r.below(5), static_cast<char>('a' + r.below(26))), 1 + r.below(9));
    else s.update(static_cast<uint64_t>(r.below(kind == C_FEW ? 24 : 500)), r.chance(0.2) ? 1 + r.below(100000) : 1 + r.below(4));
  }
  auto v = s.serialize();
  return Bytes(v.begin(), v.end());
}

// ------------------------------------------------------------------ bloom
static const uint64_t BLOOM_BIG = 1u << 24;   // bits; images of this unit have at most 4096.  An (empty) image may legitimately
                                               // describe a filter of up to 2^34 bits: keep the harness cost bounded for those
static std::string bloom_readout(bloom_filter& f) {
  std::string o;
  const bool big = f.get_capacity() > BLOOM_BIG;
  o += "cap=" + std::to_string(f.get_capacity()) + " nh=" + std::to_string(f.get_num_hashes()) + " seed=" + std::to_string(f.get_seed()) +
       " empty=" + std::to_string(f.is_empty()) + " ro=" + std::to_string(f.is_read_only()) + " wrapped=" + std::to_string(f.is_wrapped()) +
       " owned=" + std::to_string(f.is_memory_owned()) + " sersize=" + std::to_string(f.get_serialized_size_bytes());
  if (!big) {
    auto img = f.serialize();
    o += " ser=" + hexv(img);
    std::ostringstream os; f.serialize(os);
    const std::string ss = os.str();
    o += " sers=" + std::to_string(ss.size()) + (ss.size() == img.size() && (ss.empty() || memcmp(ss.data(), img.data(), ss.size()) == 0) ? "" : " STREAM-DIFFERS");
  }
  o += " Q:";
  for (uint64_t j = 0; j < 48; ++j) o += f.query(j) ? '1' : '0';
  for (int64_t j = -4; j < 0; ++j) o += f.query(j) ? '1' : '0';
  const std::string strs[4] = {"a", "bb", "ccc", ""};
  for (auto& x : strs) o += f.query(x) ? '1' : '0';
  o += f.query(1.5) ? '1' : '0';
  const auto ts = f.to_string(false);
  o += " str=" + std::string(ts.begin(), ts.end());
  if (!big) {
    bloom_filter c(f);   // get_bits_used() caches the count: done on a copy so that the read-out does not change the state read next
    o += " bits=" + std::to_string(c.get_bits_used());
  }
  o += " bits2=" + std::to_string(f.get_bits_used());
  if (!big) o += " ser2=" + hexv(f.serialize());
  return o;
}
static void bloom_fill(bloom_filter& f, uint64_t base, int n) {
  for (int i = 0; i < n; ++i) {
    const uint64_t v = base + static_cast<uint64_t>(i) * 7919;
    switch (i % 4) {
      case 0: f.update(v); break;
      case 1: (void)f.query_and_update(v); break;
      case 2: f.update(std::string("s") + std::to_string(v)); break;
      default: f.update(static_cast<double>(v) + 0.5); break;
    }
  }
}
static void bloom_use(bloom_filter& f) {
  if (f.is_read_only()) {
    bool threw = false;
    try { f.update(static_cast<uint64_t>(77)); } catch (const std::logic_error&) { threw = true; }
    (void)threw;
    bloom_filter fresh = bloom_filter::builder::create_by_size(f.get_capacity(), f.get_num_hashes(), f.get_seed());
    bloom_fill(fresh, 1000, 20);
    fresh.union_with(f);
    (void)bloom_readout(fresh);
    if (f.get_capacity() > BLOOM_BIG) return;
    fresh.intersect(f);
    (void)bloom_readout(fresh);
    (void)bloom_readout(f);
    return;
  }
  bloom_fill(f, 5, 50);
  (void)bloom_readout(f);
  bloom_filter fresh = bloom_filter::builder::create_by_size(f.get_capacity(), f.get_num_hashes(), f.get_seed());
  bloom_fill(fresh, 1000, 20);
  f.union_with(fresh);
  (void)bloom_readout(f);
  if (f.get_capacity() > BLOOM_BIG) return;
  f.intersect(fresh);
  (void)bloom_readout(f);
  f.invert();
  (void)bloom_readout(f);
  fresh.union_with(f);
  (void)bloom_readout(fresh);
  f.reset();
  (void)bloom_readout(f);
}
static void bloom_cheap(bloom_filter& f) {
  (void)f.get_capacity(); (void)f.get_num_hashes(); (void)f.get_seed(); (void)f.is_empty(); (void)f.is_read_only();
  (void)f.query(static_cast<uint64_t>(11));
  if (!f.is_read_only()) { f.update(static_cast<uint64_t>(11)); (void)f.query(static_cast<uint64_t>(11)); }
}
static std::string bloom_bytes(const void* p, size_t n, bool use) {
  return accept([&] { return bloom_filter::deserialize(p, n); }, bloom_readout, bloom_use, use, bloom_cheap);
}
static std::string bloom_stream(std::istream& is, bool use) {
  return accept([&] { return bloom_filter::deserialize(is); }, bloom_readout, bloom_use, use, bloom_cheap);
}
static std::string bloom_wrap(const void* p, size_t n, bool use) {
  return accept([&] { return bloom_filter::wrap(p, n); }, bloom_readout, bloom_use, use, bloom_cheap);
}
static std::string bloom_wwrap(uint8_t* p, size_t n, bool use) {
  return accept([&] { return bloom_filter::writable_wrap(static_cast<void*>(p), n); }, bloom_readout, bloom_use, use, bloom_cheap);
}
enum BK { B_EMPTY, B_FEW_DIRTY, B_FEW_COUNTED, B_DENSE };
static Bytes bloom_image(Rng& r, bool T_, int kind) {
  const uint64_t seed = r.coin() ? r.next() : static_cast<uint64_t>(r.below(1000));
  bloom_filter f = r.chance(0.3)
    ? bloom_filter::builder::create_by_accuracy(static_cast<uint64_t>(r.range(5, T_ ? 300 : 150)), 0.01 + 0.3 * r.unit(), seed)
    : bloom_filter::builder::create_by_size(static_cast<uint64_t>(r.range(1, T_ ? 4096 : 2048)), static_cast<uint16_t>(r.range(1, 9)), seed);
  const uint64_t cap = f.get_capacity();
  const uint64_t base = r.below(40);
  switch (kind) {
    case B_EMPTY: break;
    case B_FEW_DIRTY: { const uint64_t m = 1 + r.below(5); for (uint64_t i = 0; i < m; ++i) f.update(base + i); break; }
    case B_FEW_COUNTED: { const uint64_t m = 1 + r.below(5); for (uint64_t i = 0; i < m; ++i) (void)f.query_and_update(base + i); break; }
    default: {
      const uint64_t m = cap / 2 + r.below(cap);
      for (uint64_t i = 0; i < m; ++i) f.update(base + i);
      if (r.coin()) (void)f.get_bits_used();   // stored count instead of the dirty marker
      if (r.chance(0.2)) { f.invert(); if (f.is_empty()) f.invert(); }   // an all-ones filter inverts to an empty one: that is kind "empty"
      break;
    }
  }
  auto v = f.serialize();
  return Bytes(v.begin(), v.end());
}

// ------------------------------------------------------------------ registration
std::vector<Target> targets() {
  std::vector<Target> t;
  std::vector<Target> fam_legacy;
  struct { const char* name; int k; } fks[] = {{"empty", F_EMPTY}, {"single", F_SINGLE}, {"few", F_FEW}, {"grown", F_GROWN}, {"purged", F_PURGED}, {"bigcfg_few", F_BIGCFG}};
  // older writers marked an empty sketch with flag 0x01 (C++) or 0x04 (Java); today both bits are set: all three are accepted
  for (int fl : {1, 4}) {
    BuildFn b = [fl](Rng& r, bool) { Wr w; w.u8(1).u8(1).u8(10).u8(uint8_t(r.range(3, 12))).u8(3).u8(uint8_t(fl)).u16(0); return w.b; };
    const std::string name = "legacy_empty_flag_0x0" + std::to_string(fl);
    fam_legacy.push_back({"fi_int64", name, "bytes", b, bytes_path(fi_bytes<int64_t>)});
    fam_legacy.push_back({"fi_int64", name, "stream", b, stream_path(fi_stream<int64_t>)});
    fam_legacy.push_back({"fi_string", name, "bytes", b, bytes_path(fi_bytes<std::string>)});
    fam_legacy.push_back({"fi_string", name, "stream", b, stream_path(fi_stream<std::string>)});
  }
  struct { const char* name; int k; } cks[] = {{"empty", C_EMPTY}, {"few", C_FEW}, {"many", C_MANY}};
  struct { const char* name; int k; } bks[] = {{"empty", B_EMPTY}, {"few_dirty", B_FEW_DIRTY}, {"few_counted", B_FEW_COUNTED}, {"dense", B_DENSE}};
  std::vector<std::vector<Target>> fam(4);
  for (auto& k : fks) {
    const int kk = k.k;
    BuildFn b1 = [kk](Rng& r, bool T_) { return fi_image<int64_t>(r, T_, kk); };
    fam[0].push_back({"fi_int64", k.name, "bytes", b1, bytes_path(fi_bytes<int64_t>)});
    fam[0].push_back({"fi_int64", k.name, "stream", b1, stream_path(fi_stream<int64_t>)});
    BuildFn b2 = [kk](Rng& r, bool T_) { return fi_image<std::string>(r, T_, kk); };
    fam[1].push_back({"fi_string", k.name, "bytes", b2, bytes_path(fi_bytes<std::string>)});
    fam[1].push_back({"fi_string", k.name, "stream", b2, stream_path(fi_stream<std::string>)});
  }
  for (auto& k : cks) {
    const int kk = k.k;
    BuildFn b = [kk](Rng& r, bool T_) { return cm_image(r, T_, kk); };
    fam[2].push_back({"count_min", k.name, "bytes", b, bytes_path(cm_bytes)});
    fam[2].push_back({"count_min", k.name, "stream", b, stream_path(cm_stream)});
  }
  for (auto& k : bks) {
    const int kk = k.k;
    BuildFn b = [kk](Rng& r, bool T_) { return bloom_image(r, T_, kk); };
    fam[3].push_back({"bloom", k.name, "bytes", b, bytes_path(bloom_bytes)});
    fam[3].push_back({"bloom", k.name, "stream", b, stream_path(bloom_stream)});
    fam[3].push_back({"bloom", k.name, "wrap", b, bytes_path(bloom_wrap)});
    // writable_wrap of an EMPTY image is documented to throw ("Cannot wrap an empty filter for writing"): no valid baseline, not a target
    if (kk != B_EMPTY) fam[3].push_back({"bloom", k.name, "writable_wrap", b, ReadFn(bloom_wwrap)});
  }
  for (size_t i = 0;; ++i) {
    bool any = false;
    for (auto& f : fam) if (i < f.size()) { t.push_back(f[i]); any = true; }
    if (!any) break;
  }
  for (auto& x : fam_legacy) t.push_back(x);
  return t;
}

}} // namespace
