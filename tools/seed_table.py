#!/usr/bin/env python3
"""Prints the markdown table of seeded changes (seeded/*/meta.json) for DESIGN.md §10.3."""
import json, glob, os
rows = []
for d in sorted(glob.glob(os.path.join(os.path.dirname(os.path.dirname(os.path.abspath(__file__))), "seeded", "*"))):
    f = os.path.join(d, "meta.json")
    if not os.path.exists(f):
        continue
    m = json.load(open(f))
    v = m.get("verified_by_us", {})
    a = v.get("after_strengthening")
    det = "quick" if v.get("detected") else ("after strengthening" if a and a.get("detected") else "**MISSED**")
    keys = (a or v).get("violation_keys", []) if not v.get("detected") else v.get("violation_keys", [])
    key = keys[0].replace("key=", "") if keys else ""
    what = (m.get("what_changed") or m.get("title") or "").replace("\n", " ").replace("|", "/")
    if len(what) > 150:
        what = what[:147] + "..."
    rows.append("| %s | %s | %s | `%s` |" % (os.path.basename(d), what, det, key))
print("| seeded change | what was changed | detected by the property's check | first violation key |")
print("|---|---|---|---|")
print("\n".join(rows))
