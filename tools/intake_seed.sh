#!/bin/bash
# usage: tools/intake_seed.sh <Cxx> <N> [tier]  — verifies a seeded change produced by a mutation agent in /tmp/seed_<Cxx>/out/<N>:
#   1. patch applies to /repo HEAD in a scratch worktree and the demo compiles
#   2. demo passes without the patch and fails with it
#   3. runs ./check <Cxx> against the patched scratch tree and records the verdict
# then stores patch.diff, demo.cpp, meta.json (+ our verdict) under /verif/seeded/<Cxx>_<N>/.
set -u
ID=$1; N=$2; TIER=${3:-quick}
SEEDBASE=${SEEDBASE:-/tmp/seed_$ID}; DSTN=${DSTN:-$N}
SRC=$SEEDBASE/out/$N
ROOT=$(cd "$(dirname "$0")/.." && pwd)
[ -f $SRC/patch.diff ] && [ -f $SRC/demo.cpp ] || { echo "missing files in $SRC"; exit 2; }
WT=$(mktemp -d /tmp/intake.XXXXXX); rmdir $WT
git -C /repo worktree add --detach $WT HEAD -q || exit 2
INC=""; for f in common hll cpc kll fi theta sampling tuple req quantiles count density tdigest filters; do INC="$INC -I$WT/$f/include"; done
# rewrite include paths of the agent's worktree, if hard-coded in the demo
sed "s|$SEEDBASE|$WT|g" $SRC/demo.cpp > $WT/demo.cpp
XFLAGS=$(python3 -c "import json,sys; m=json.load(open('$SRC/meta.json')); f=m.get('demo_compile_flags',''); f=' '.join(f) if isinstance(f,list) else f; print(' '.join(t for t in f.split() if t.startswith(('-f','-D','-g','-pthread','-rdynamic','-l')) and not t.startswith('-fuse')))" 2>/dev/null)
g++ -std=gnu++17 -O1 $XFLAGS $INC $WT/demo.cpp -o $WT/demo_clean 2> $WT/c1.log || { echo "demo does not compile on clean tree"; tail -5 $WT/c1.log; git -C /repo worktree remove --force $WT; exit 2; }
( cd $WT && timeout 600 ./demo_clean > out_clean.txt 2>&1 ); RC_CLEAN=$?
git -C $WT apply $SRC/patch.diff || { echo "patch does not apply to /repo HEAD"; git -C /repo worktree remove --force $WT; exit 2; }
g++ -std=gnu++17 -O1 $XFLAGS $INC $WT/demo.cpp -o $WT/demo_mut 2> $WT/c2.log || { echo "demo does not compile on patched tree"; tail -5 $WT/c2.log; git -C /repo worktree remove --force $WT; exit 2; }
( cd $WT && timeout 600 ./demo_mut > out_mut.txt 2>&1 ); RC_MUT=$?
echo "demo: clean rc=$RC_CLEAN ($(tail -1 $WT/out_clean.txt | cut -c1-100))  patched rc=$RC_MUT ($(tail -1 $WT/out_mut.txt | cut -c1-160))"
# existing unit tests of the touched families must still pass with the change
TESTS_OK=yes; TESTS_RUN=""
FAMS=$(grep -E "^\+\+\+ b/" $SRC/patch.diff | sed -E 's|^\+\+\+ b/([^/]+)/.*|\1|' | sort -u)
if echo "$FAMS" | grep -q "^common$"; then FAMS="theta hll cpc kll req quantiles fi count sampling tuple tdigest filters density"; fi
( cmake -S $WT -B $WT/_b -G Ninja -DCMAKE_BUILD_TYPE=Release -DCMAKE_CXX_FLAGS=-Wno-error -DFETCHCONTENT_TRY_FIND_PACKAGE_MODE=ALWAYS > $WT/cmake.log 2>&1 ) || TESTS_OK=cmake-failed
for fam in $FAMS; do
  case $fam in
    count) TGTS="count_min_test";; sampling) TGTS="var_opt_sampling_test ebpps_sampling_test";; filters) TGTS="bloom_filter_test";;
    *) TGTS="${fam}_test";;
  esac
  for t in $TGTS; do
    if cmake --build $WT/_b --target $t > $WT/build_$t.log 2>&1; then
      BIN=$(find $WT/_b -name $t -type f | head -1)
      if ( cd $(dirname $BIN) && timeout 1500 $BIN > $WT/test_$t.log 2>&1 ); then TESTS_RUN="$TESTS_RUN $t:pass"; else TESTS_RUN="$TESTS_RUN $t:FAIL"; TESTS_OK=NO; fi
    else TESTS_RUN="$TESTS_RUN $t:BUILD-FAIL"; TESTS_OK=NO; fi
  done
done
echo "unit tests with the change:$TESTS_RUN"
rm -rf $WT/_b
cd $ROOT
OUT=$(VERIF_REPO=$WT ./check $ID --tier $TIER 2>&1); RC=$?
echo "$OUT" | grep -E "^VIOLATION|^INCONCLUSIVE|^\[" | cut -c1-200 | head -5
KEYS=$(echo "$OUT" | grep "^VIOLATION" | grep -oE "key=\S+" | sort -u | head -8 | tr '\n' ' ')
DST=$ROOT/seeded/${ID}_$DSTN; mkdir -p $DST
cp $SRC/patch.diff $DST/; cp $SRC/demo.cpp $DST/
python3 - "$SRC/meta.json" "$DST/meta.json" "$ID" "$RC_CLEAN" "$RC_MUT" "$RC" "$TIER" "$KEYS" "$TESTS_RUN" <<'PY'
import json,sys
src,dst,pid,rcc,rcm,rc,tier,keys,tests=sys.argv[1:10]
try: m=json.load(open(src))
except Exception: m={}
m["property"]=pid
m["verified_by_us"]={"demo_rc_without_change":int(rcc),"demo_rc_with_change":int(rcm),
  "check_cmd":"VERIF_REPO=<scratch worktree with patch> ./check %s --tier %s"%(pid,tier),"check_rc":int(rc),
  "detected":int(rc)==1,"violation_keys":keys.split(),"unit_tests_with_change":tests.split()}
json.dump(m,open(dst,"w"),indent=1)
PY
echo "INTAKE $ID/$DSTN: tests_ok=$TESTS_OK demo_ok=$([ $RC_CLEAN -eq 0 ] && [ $RC_MUT -ne 0 ] && echo yes || echo NO) check_rc=$RC"
git -C /repo worktree remove --force $WT
