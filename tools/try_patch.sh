#!/bin/bash
# usage: tools/try_patch.sh <patch.diff> <Cxx> [tier]   -> applies the patch to a scratch worktree of /repo HEAD,
# runs the check against it (VERIF_REPO), prints the verdict line, removes the worktree.  Never touches /repo's tree.
set -u
PATCH=$(realpath "$1"); PROP=$2; TIER=${3:-quick}
WT=$(mktemp -d /tmp/trypatch.XXXXXX); rmdir "$WT"
git -C /repo worktree add --detach "$WT" HEAD -q || exit 2
if ! git -C "$WT" apply "$PATCH"; then echo "PATCH-DOES-NOT-APPLY $PATCH"; git -C /repo worktree remove --force "$WT"; exit 2; fi
cd "$(dirname "$0")/.."
OUT=$(VERIF_REPO="$WT" ./check "$PROP" --tier "$TIER" 2>&1); RC=$?
echo "$OUT" | grep -E "^VIOLATION|^KNOWN|^INCONCLUSIVE|^\[" | cut -c1-220 | head -${MAXLINES:-6}
echo "RESULT patch=$(basename $(dirname $PATCH))/$(basename $PATCH) prop=$PROP tier=$TIER rc=$RC"
git -C /repo worktree remove --force "$WT"
exit $RC
