#!/usr/bin/env python3
"""Generate seeding prompts for a round: tools/make_seed_prompts.py <round-tag> [Cxx ...]
Writes /tmp/seed<tag>prompt_<Cxx>.txt using tools/seed_brief.txt, the property text and the
what_changed lines of the seeds already taken in (so a new round goes elsewhere)."""
import json,sys,glob,os
tag=sys.argv[1]; want=sys.argv[2:]
props=[json.loads(l) for l in open('/verif/properties.jsonl')]
brief=open('/verif/tools/seed_brief.txt').read()
for p in props:
    pid=p['id']
    if want and pid not in want: continue
    wt='/tmp/seed%s_%s'%(tag,pid)
    done=[]
    for m in sorted(glob.glob('/verif/seeded/%s_*/meta.json'%pid)):
        j=json.load(open(m)); done.append('- '+str(j.get('what_changed',j.get('title','')))[:420].replace('\n',' '))
    txt=brief.replace('WORKTREE',wt)
    txt+="\n\nALREADY DONE by earlier rounds (do NOT repeat these or close variants; pick different mechanisms, clauses of the property, code paths, configurations and — where the property spans several sketch families, item types or format variants — ones not used below). Aim for changes that are HARD to notice: an unusual configuration, a specific multi-step history (copy/move/assign/reset/serialize-then-continue/merge-into-empty/self-merge), a boundary size, an extreme but legal input magnitude, a rarely used overload/template instantiation/API path, or one that only disturbs a statistical guarantee:\n"+"\n".join(done)
    txt+="\n\nTHE PROPERTY:\nProperty %s — %s\n\n"%(pid,p.get('title',''))
    for k in p:
        if k in('id','title'): continue
        v=p[k]
        txt+="%s: %s\n\n"%(k, v if isinstance(v,str) else json.dumps(v))
    open('/tmp/seed%sprompt_%s.txt'%(tag,pid),'w').write(txt)
    print(pid,len(done),len(txt))
