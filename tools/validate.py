#!/usr/bin/env python3-vt
import json, jsonschema, glob, sys, os
R = os.path.dirname(os.path.dirname(os.path.abspath(__file__)))
jsonschema.validate(json.load(open(R + '/MANIFEST.json')), json.load(open('/root/.vp/MANIFEST.schema.json')))
es = json.load(open('/root/.vp/EVIDENCE.schema.json'))
for f in sorted(glob.glob(R + '/evidence/C*.json')):
    jsonschema.validate(json.load(open(f)), es)
    print('ok', os.path.basename(f))
print('manifest ok')
