#!/usr/bin/env python3
"""Rewrites the block between the SEED-TABLE markers in DESIGN.md from seeded/*/meta.json."""
import subprocess, os, re, json, glob
R = os.path.dirname(os.path.dirname(os.path.abspath(__file__)))
table = subprocess.check_output(["python3", os.path.join(R, "tools", "seed_table.py")]).decode()
metas = [json.load(open(f)) for f in sorted(glob.glob(os.path.join(R, "seeded", "*", "meta.json")))]
n = len(metas)
quick = sum(1 for m in metas if m.get("verified_by_us", {}).get("detected"))
later = sum(1 for m in metas if not m.get("verified_by_us", {}).get("detected") and (m.get("verified_by_us", {}).get("after_strengthening") or {}).get("detected"))
missed = n - quick - later
head = ("%d seeded changes (each verified by us: applies to /repo HEAD of the time, the family's unit tests still pass with it, the agent's demo "
        "passes without and fails with it).  %d were detected by the property's quick check as it stood, %d only after the check was strengthened "
        "(generator gaps, never oracle loosening), %d are still missed.  Each `meta.json` names in `applies_to_repo_commit` the newest `/repo` "
        "commit its `patch.diff` applies to: %d apply to the final HEAD, %d touch lines that a later `fix:` commit rewrote and apply to the "
        "commit named there.\n\n" % (n, quick, later, missed, sum(1 for m in metas if not m.get("applies_note")), sum(1 for m in metas if m.get("applies_note"))))
s = open(os.path.join(R, "DESIGN.md")).read()
b, e = "<!-- SEED-TABLE-BEGIN -->", "<!-- SEED-TABLE-END -->"
block = b + "\n" + head + table + "\n" + e
if b in s:
    s = re.sub(re.escape(b) + r".*?" + re.escape(e), lambda _: block, s, flags=re.S)
else:
    s += "\n### 10.3 Seeded changes and which check catches them\n\n" + \
         "Produced by fresh sub-agents that saw only the property text and a scratch worktree (brief: `tools/seed_brief.txt`); later rounds were also told what earlier rounds had changed, to push them to different mechanisms.  Stored under `seeded/<id>_<n>/` (patch.diff, demo.cpp, meta.json with our verification record).  Taken in with `tools/intake_seed.sh`, re-tested after strengthening with `tools/try_patch.sh`.\n\n" + block + "\n"
open(os.path.join(R, "DESIGN.md"), "w").write(s)
print(head)
