#!/usr/bin/env python3
"""Regenerates MANIFEST.json from harness/registry.py (keeps the two in sync)."""
import json, os, sys, subprocess
ROOT = os.path.dirname(os.path.dirname(os.path.abspath(__file__)))
sys.path.insert(0, os.path.join(ROOT, "harness"))
from registry import REGISTRY, NOT_APPLICABLE, HOOK_COMMITS, READY
REGISTRY = {k: v for k, v in REGISTRY.items() if k in READY}
props = [json.loads(l) for l in open(os.path.join(ROOT, "properties.jsonl"))]
checks = []
for p in props:
    pid = p["id"]
    if pid not in REGISTRY:
        continue
    s = REGISTRY[pid]
    checks.append({
        "property_id": pid,
        "quick_cmd": "./check %s --tier quick" % pid,
        "thorough_cmd": "./check %s --tier thorough" % pid,
        "evidence_file": "evidence/%s.json" % pid,
        "replay_cmd_template": "./check %s --replay {path}" % pid,
        "engine": "vf-monitor",
        "level_claimed": {"category": s.get("level", "exploration"), "text": s["level_text"], "design_ref": "DESIGN.md §3 " + pid},
        "level_note": s["level_note"],
        "technique": s["technique"],
    })
na = [{"property_id": p["id"], "reason": NOT_APPLICABLE.get(p["id"], "monitor not built yet in this round; not claimed")}
      for p in props if p["id"] not in REGISTRY]
m = {
    "version": 1,
    "setup_cmd": "./setup.sh",
    "hooks": {
        "guard": "DATASKETCHES_VERIF",
        "enable": "every monitor is compiled with -DDATASKETCHES_VERIF against /repo's headers (header-only library); see ./check",
        "baseline_off_cmd": "cmake --build /repo/_build -j16 && ctest --test-dir /repo/_build -j8 --timeout 900",
        "source_commits": HOOK_COMMITS,
        "add_only": True,
    },
    "engines": [{"name": "vf-monitor", "path": "check", "serves_properties": [c["property_id"] for c in checks],
                 "kind_free_text": "runtime monitoring: generated hostile workloads on the real library under gcc ASan+UBSan+LSan, reference-model / invariant oracles after every API call, crash/hang attribution, known-findings matching"}],
    "checks": checks,
    "not_applicable": na,
    "notes": "Technique family: runtime monitoring and sanitizers only. See DESIGN.md. Exit 0 held / 1 VIOLATION / 2 inconclusive.",
}
json.dump(m, open(os.path.join(ROOT, "MANIFEST.json"), "w"), indent=1)
print("wrote MANIFEST.json with", len(checks), "checks;", len(na), "not claimed")
